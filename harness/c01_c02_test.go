package harness

import (
	"testing"

	"pgregory.net/rapid"
)

// C01: core expression evaluation conforms (differential vs reference evaluator).
func TestC01(t *testing.T) {
	rapid.Check(t, func(t *rapid.T) {
		doc := genDoc(t)
		expr := genExpr(t, doc, fragCore)
		run(t, caseDiff("C01", expr, doc))
	})
}

// C02: projections (differential, bag-aware).
func TestC02(t *testing.T) {
	rapid.Check(t, func(t *rapid.T) {
		doc := genDoc(t)
		expr := genExpr(t, doc, fragProj)
		run(t, caseDiff("C02", expr, doc))
	})
}

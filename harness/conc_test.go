package harness

// C12 (concurrent use; run under the race detector) and C13 (history independence).

import (
	"encoding/json"
	"fmt"
	"math"
	"os"
	"reflect"
	"runtime"
	"strings"
	"sync"
	"testing"

	jp "github.com/jmespath/go-jmespath"
	"pgregory.net/rapid"

	"verifharness/ref"
)

func init() {
	predicates["concurrent"] = predConcurrent
	predicates["history"] = predHistory
}

// ---------------------------------------------------------------------------
// C12

// breadcrumb records the case about to run, so that a race report (which halts
// the process: GORACE=halt_on_error=1) can be attributed to it by the driver.
func breadcrumb(c Case) {
	if p := os.Getenv("VERIF_BREADCRUMB"); p != "" {
		b, _ := json.Marshal(c)
		_ = os.WriteFile(p, b, 0o644)
	}
}

func deepRead(v interface{}) int { return deepReadDepth(v, 0) }

// depth limited: a broken library may have made the document cyclic
func deepReadDepth(v interface{}, depth int) int {
	if depth > 10000 {
		return 0
	}
	n := 0
	switch t := v.(type) {
	case []interface{}:
		for _, e := range t {
			n += deepReadDepth(e, depth+1)
		}
		n += len(t)
	case map[string]interface{}:
		for k, e := range t {
			n += len(k) + deepReadDepth(e, depth+1)
		}
	case string:
		n += len(t)
	case float64:
		n++
	}
	return n
}

// predConcurrent: Extra = {mode, goroutines, iters}.
//
//	same-doc   all goroutines search the same document with one compiled expression
//	own-docs   one compiled expression, a private copy of the document per goroutine
//	oneshot    the one-shot Search from all goroutines on the same document
//	mixed      compiled searches while other goroutines Compile and search other expressions
//	reader     searches on a shared document while another goroutine deep-reads it
//
// predConcurrentStruct: a compiled expression shared by goroutines searching a
// Go struct document (field lookups go through reflection). No reference model:
// every goroutine's JSON-normalised result must equal the sequential one.
func predConcurrentStruct(c Case) (r Result) {
	expr := c.expr()
	breadcrumb(c)
	in := &hwInner{Name: "n", Tags: []string{"x", "y"}}
	doc := &hwDoc{Name: "d", Items: []*hwInner{in, nil, {Name: "", Tags: []string{}}}, Inner: *in, Ptr: in, Nums: []float64{2, 1}, Strs: []string{"b", "a"}}
	comp, cerr, pan := libCompile(expr)
	if pan != nil || cerr != nil {
		r.Discard = "does-not-compile"
		return
	}
	var seq libOut
	seq.Panic = safely(func() { seq.Val, seq.Err = comp.Search(doc) })
	if seq.Panic != nil {
		r.Violation = "Search panicked on struct data"
		r.Got = showOut(seq)
		return
	}
	seqNorm, _ := normalise(seq.Val)
	// a fresh compiled expression per case: the first uses of it overlap
	comp, _, _ = libCompile(expr)
	G, iters := 8, 10
	outs := make([][]libOut, G)
	var wg sync.WaitGroup
	start := make(chan struct{})
	for g := 0; g < G; g++ {
		wg.Add(1)
		go func(g int) {
			defer wg.Done()
			<-start
			for i := 0; i < iters; i++ {
				var o libOut
				o.Panic = safely(func() { o.Val, o.Err = comp.Search(doc) })
				outs[g] = append(outs[g], o)
			}
		}(g)
	}
	close(start)
	wg.Wait()
	r.Nontrivial = true
	r.class("mode.struct")
	if strings.Contains(strings.Replace(expr, "[*]", "", -1), "*") || strings.Contains(expr, "keys(") || strings.Contains(expr, "values(") {
		// member order is unspecified: only panics and races are checked
		for g := range outs {
			for _, o := range outs[g] {
				if o.Panic != nil {
					r.Violation = "Search panicked under concurrent use on struct data"
					r.Got = showOut(o)
					return
				}
			}
		}
		return
	}
	for g := range outs {
		for _, o := range outs[g] {
			if o.Panic != nil {
				r.Violation = "Search panicked under concurrent use on struct data"
				r.Got = showOut(o)
				return
			}
			if (o.Err != nil) != (seq.Err != nil) {
				r.Violation = "a concurrent call disagrees with the sequential call about failure"
				r.Expected, r.Got = showOut(seq), showOut(o)
				return
			}
			if o.Err == nil {
				if n, _ := normalise(o.Val); !reflect.DeepEqual(n, seqNorm) && !strings.Contains(expr, "*") && !strings.Contains(expr, "keys") && !strings.Contains(expr, "values") {
					r.Violation = "a concurrent call on struct data returned a different value than the same call made alone"
					r.Expected, r.Got = show(seqNorm), show(n)
					return
				}
			}
		}
	}
	return
}

func predConcurrent(c Case) (r Result) {
	expr := c.expr()
	mode, _ := c.Extra["mode"].(string)
	if mode == "struct" {
		return predConcurrentStruct(c)
	}
	G, iters := 8, 20
	if v, ok := c.Extra["goroutines"].(float64); ok {
		G = int(v)
	}
	if v, ok := c.Extra["iters"].(float64); ok {
		iters = int(v)
	}
	breadcrumb(c)
	orig := mustJSON(c.Doc)
	n, st, perr := ref.ParseText(expr)
	if perr != nil || st != ref.LexOK {
		r.Discard = "generator:not-a-sentence"
		return
	}
	ev := &ref.Ev{}
	want, werr := ev.Eval(n, ref.DeepCopy(orig))
	for k := range ev.Stats {
		if strings.HasPrefix(k, "call.") || strings.HasPrefix(k, "proj.") || strings.HasPrefix(k, "filter.") || strings.HasPrefix(k, "flatten.") {
			r.Nontrivial = true
		}
	}
	comp, cerr, pan := libCompile(expr)
	if pan != nil || cerr != nil {
		r.Violation = "Compile failed on a sentence"
		r.Got = fmt.Sprint(cerr, pan)
		return
	}
	// sequential result first
	seq := libOut{}
	seq.Panic = safely(func() { seq.Val, seq.Err = comp.Search(ref.DeepCopy(orig)) })
	if seq.Panic != nil {
		r.Violation = "Search panicked"
		r.Got = showOut(seq)
		return
	}
	// the concurrent phase uses a cold compiled expression (never searched before):
	// lazily initialised state is then first touched by overlapping calls
	if rapidBool(c, "cold", true) {
		if fresh, err, pan := libCompile(expr); err == nil && pan == nil {
			comp = fresh
		}
	}
	// the shared document is built the way Go programs build documents: arrays grown by append
	// have spare capacity behind their elements, which is as much part of the caller's memory
	// (and as read-only) as the elements are
	shared := withSpareCapacity(ref.DeepCopy(orig))
	snap := ref.DeepCopy(orig)
	type res struct {
		out libOut
		g   int
	}
	results := make([][]libOut, G)
	// own-docs: every goroutine searches its own variant of the document (arrays
	// doubled / truncated), so that state leaking from one document's evaluation into
	// another's changes a result; the expected value per variant comes from the
	// reference model.
	ownDocs := make([]interface{}, G)
	ownWant := make([]interface{}, G)
	ownErr := make([]bool, G)
	ownAmb := make([]bool, G)
	for g := 0; g < G; g++ {
		ownDocs[g] = varyDoc(orig, g%5)
		e2 := &ref.Ev{}
		w, werr2 := e2.Eval(n, ref.DeepCopy(ownDocs[g]))
		ownWant[g], ownErr[g], ownAmb[g] = w, werr2 != nil, e2.Ambiguous
	}
	var wg, ready sync.WaitGroup
	start := make(chan struct{})
	stopReader := make(chan struct{})
	overlapped := int32(0)
	var mu sync.Mutex
	active := 0
	for g := 0; g < G; g++ {
		wg.Add(1)
		ready.Add(1)
		go func(g int) {
			defer wg.Done()
			var doc interface{}
			switch mode {
			case "own-docs":
				doc = ownDocs[g]
			default:
				doc = shared
			}
			ready.Done()
			<-start
			mu.Lock()
			active++
			if active >= 2 {
				overlapped = 1
			}
			mu.Unlock()
			for i := 0; i < iters; i++ {
				var o libOut
				switch {
				case mode == "oneshot":
					o.Panic = safely(func() { o.Val, o.Err = jp.Search(expr, doc) })
				case mode == "oneshot-churn":
					// every second caller pushes a hundred other expressions through the one-shot
					// Search first (anything the package keeps per expression text turns over)
					o.Panic = safely(func() {
						if g%2 == 1 && i%5 == 0 {
							for k := 0; k < 100; k++ {
								_, _ = jp.Search(churnExprs[(g*131+i*17+k)%len(churnExprs)], doc)
							}
						}
						o.Val, o.Err = jp.Search(expr, doc)
					})
				case mode == "mixed" && g%2 == 1:
					o.Panic = safely(func() {
						otherExpr := c06Templates[(g+i)%len(c06Templates)]
						if i%2 == 0 {
							otherExpr = c12LiteralExprs[(g+i)%len(c12LiteralExprs)]
						}
						other, err := jp.Compile(otherExpr)
						if err == nil {
							_, _ = other.Search(doc)
						}
						o.Val, o.Err = comp.Search(doc)
					})
				default:
					o.Panic = safely(func() { o.Val, o.Err = comp.Search(doc) })
				}
				results[g] = append(results[g], o)
			}
			mu.Lock()
			active--
			mu.Unlock()
		}(g)
	}
	var readerWG sync.WaitGroup
	if mode == "reader" {
		readerWG.Add(1)
		go func() {
			defer readerWG.Done()
			for {
				select {
				case <-stopReader:
					return
				default:
					_ = deepRead(shared)
					runtime.Gosched()
				}
			}
		}()
	}
	ready.Wait()
	close(start)
	wg.Wait()
	close(stopReader)
	readerWG.Wait()
	if overlapped == 0 {
		r.Nontrivial = false
	}
	r.class("mode." + mode)
	if !reflect.DeepEqual(shared, snap) {
		r.Violation = "concurrent searches modified the shared document"
		r.Expected, r.Got = ref.Canon(snap), show(shared)
		return
	}
	if !tailsIntact(shared) {
		r.Violation = "concurrent searches wrote behind an array of the shared document (spare capacity overwritten)"
		return
	}
	for g := range results {
		for _, o := range results[g] {
			if o.Panic != nil {
				r.Violation = "Search panicked under concurrent use"
				r.Got = showOut(o)
				return
			}
			if mode == "own-docs" {
				if ownAmb[g] {
					continue
				}
				if (o.Err != nil) != ownErr[g] || (o.Err == nil && !ref.Matches(o.Val, ownWant[g])) {
					r.Violation = "a concurrent call on its own document returned a different result than the same call made alone"
					r.Expected, r.Got = show(ownWant[g]), showOut(o)
					return
				}
				continue
			}
			if ev.Ambiguous {
				// the unspecified order of object members may legitimately change the
				// outcome (even whether the call fails) from one evaluation to the next
				continue
			}
			if (o.Err != nil) != (seq.Err != nil) {
				r.Violation = "a concurrent call disagrees with the sequential call about failure"
				r.Expected, r.Got = showOut(seq), showOut(o)
				return
			}
			if o.Err == nil && !ev.Ambiguous {
				if !ref.Matches(o.Val, want) {
					r.Violation = "a concurrent call returned a different value than the same call made alone"
					r.Expected, r.Got = show(want), show(o.Val)
					return
				}
			}
		}
	}
	if !ev.Ambiguous {
		if (werr != nil) != (seq.Err != nil) || (werr == nil && !ref.Matches(seq.Val, want)) {
			r.Violation = "the sequential result differs from the specification"
			r.Expected, r.Got = show(want), showOut(seq)
		}
	}
	return
}

var c12Modes = []string{"same-doc", "own-docs", "oneshot", "mixed", "reader", "oneshot-churn"}

// 1500 distinct small expressions
var churnExprs = func() []string {
	var out []string
	for i := 0; i < 500; i++ {
		out = append(out, fmt.Sprintf("k%d", i), fmt.Sprintf("nums[%d]", i), fmt.Sprintf("people[?age > `%d`].name", i))
	}
	return out
}()

// literal-sharing expressions: literals are stored in the shared AST and returned by reference
var c12LiteralExprs = []string{
	"`[3,1,2]` | [@[0], sort_by(@, &@)[0]]", "sort_by(`[{\"a\":2},{\"a\":1}]`, &a)[0].a", "reverse(`[1,2,3]`)", "merge(`{\"a\":1}`, @)", "`[[2,1],[0]]`[] | sort(@)",
	"sort_by(people, &age)[*].name", "max_by(people, &age).name", "people[?age > `1`].tags[]", "sort(nums) | reverse(@)", "merge(o1, o2).k", "to_array(nums)[0]", "map(&tags, people)[]",
	"sort_by(`[\"b\",\"a\",\"c\"]`, &@) | join('', @)", "`[{\"name\":\"a fairly long literal value that exceeds sixty-four bytes\",\"n\":[3,1,2]},{\"name\":\"b\",\"n\":[]}]` | sort_by(@, &name)[0].n", "merge(`{\"k1\":\"vvvvvvvvvvvvvvvvvvvvvvvvvvvvvvvvvvvvvvvvvvvvvvvvvvvvvvvvvvvvvvvvvvvvvvvv\"}`, o1).k", "[`\"0123456789012345678901234567890123456789012345678901234567890123456789\"`, nums[0]]", "nums[::9]", "people[::-7].name", "`[1,2]`[::5]", "nums[1::3]", "nested[][::4]", "people[*].tags[::2]", "not_null(`[2,1]`, nums) | sort(@)", "[`[3,2,1]`, nums][] | sort(@)",
}

func TestC12(t *testing.T) {
	rapid.Check(t, func(t *rapid.T) {
		var doc interface{}
		var expr string
		src := rapid.IntRange(0, 3).Draw(t, "src")
		if src == 3 && os.Getenv("VERIF_C12_MODE") == "" {
			expr = hwExprs[rapid.IntRange(0, len(hwExprs)-1).Draw(t, "hw")]
			if rapid.Bool().Draw(t, "hwCtx") {
				expr = "[" + expr + ", Name, Items[*].Name]"
			}
			run(t, Case{Property: "C12", Kind: "concurrent", Expr: expr, Doc: "null", Extra: map[string]interface{}{"mode": "struct"}})
			return
		}
		switch src % 3 {
		case 0:
			doc = genUnsortedDoc(t)
			expr = c12LiteralExprs[rapid.IntRange(0, len(c12LiteralExprs)-1).Draw(t, "lit")]
		case 1:
			doc = genUnsortedDoc(t)
			expr = c06Templates[rapid.IntRange(0, len(c06Templates)-1).Draw(t, "tmpl")]
		default:
			doc = genDoc(t)
			f := fragAll
			f.mismatch = 8
			expr = genExpr(t, doc, f)
		}
		mode := c12Modes[rapid.IntRange(0, len(c12Modes)-1).Draw(t, "mode")]
		if m := os.Getenv("VERIF_C12_MODE"); m != "" {
			mode = m
		}
		run(t, Case{Property: "C12", Kind: "concurrent", Expr: expr, Doc: ref.Canon(doc), Extra: map[string]interface{}{"mode": mode}})
	})
}

// TestReplayRepeat re-runs one concurrent case many times (replay of a
// schedule-dependent failure; the binary is built with -race).
func TestReplayRepeat(t *testing.T) {
	path := os.Getenv("VERIF_REPLAY_FILE")
	if path == "" {
		t.Skip("no VERIF_REPLAY_FILE")
	}
	for i := 0; i < envInt("VERIF_REPEAT", 200); i++ {
		replayFile(t, path)
	}
}

// ---------------------------------------------------------------------------
// C13

// A history is a list of actions; each action is a list of strings:
//
//	["compile", expr]        add a compiled expression to the pool
//	["doc", json]            add a document to the pool
//	["search", i, j]         pool expression i on pool document j (the live object)
//	["oneshot", expr, j]     one-shot Search on pool document j
//	["parse", expr]          Parse on the long-lived Parser
type history struct {
	exprs    []string
	compiled []*jp.JMESPath
	origs    []string
	live     []interface{}
	parser   *jp.Parser
	log      [][]string
	// classification
	searchesPerExpr map[int]int
	histJSON        []byte
	failedBefore    map[int]bool
	otherDocBefore  map[int]map[int]bool
	kept            []keptResult
	trees           []keptTree
	invalidParses   int
	validAfterBad   int
	interesting     bool
}

// keptTree: a tree the long-lived Parser returned earlier, and how it looked then.
type keptTree struct {
	node jp.ASTNode
	dump string
	expr string
}

type keptResult struct {
	val   interface{}
	shown string
}

func newHistory() *history {
	return &history{parser: jp.NewParser(), searchesPerExpr: map[int]int{}, failedBefore: map[int]bool{}, otherDocBefore: map[int]map[int]bool{}}
}

func atoi(s string) int {
	n := 0
	for _, c := range s {
		n = n*10 + int(c-'0')
	}
	return n
}

// apply executes one action and checks the model; it returns a violation description or "".
func (h *history) apply(a []string) (violation, expected, got string) {
	h.log = append(h.log, a)
	if crumbEnabled() {
		// incremental: only the new action is serialised
		b, _ := json.Marshal(a)
		if len(h.histJSON) > 0 {
			h.histJSON = append(h.histJSON, ',')
		}
		h.histJSON = append(h.histJSON, b...)
		leaveCrumbRaw([]byte(`{"property":"C13","kind":"history","extra":{"history":[`), h.histJSON, []byte(`]}}`))
	}
	switch a[0] {
	case "compile":
		c, err, pan := libCompile(a[1])
		if pan == nil && err != nil {
			if _, lst, _ := ref.Lex(a[1]); lst == ref.LexOutOfDomain {
				return "", "", "" // an implementation limit (an integer beyond int64): refusing is allowed, nothing joins the pool
			}
		}
		if pan != nil || err != nil {
			return "Compile failed on a sentence: " + a[1], "", fmt.Sprint(err, pan)
		}
		h.exprs = append(h.exprs, a[1])
		h.compiled = append(h.compiled, c)
	case "doc":
		h.origs = append(h.origs, a[1])
		h.live = append(h.live, mustJSON(a[1]))
	case "edit":
		// the caller changes its own document object between two searches: from now on the
		// object is another document (at the same address, often with as many members)
		j := atoi(a[1])
		if j < len(h.live) {
			editInPlace(h.live[j], atoi(a[2]))
			h.origs[j] = ref.Canon(h.live[j])
			// results handed out earlier may be parts of this very object (a result is not a
			// copy): what they show now is the caller's own doing
			h.kept = nil
			h.interesting = true
		}
	case "search", "oneshot":
		var expr string
		var j int
		var pooled *jp.JMESPath
		ei := -1
		if a[0] == "search" {
			ei, j = atoi(a[1]), atoi(a[2])
			expr, pooled = h.exprs[ei], h.compiled[ei]
		} else {
			expr, j = a[1], atoi(a[2])
		}
		orig := mustJSON(h.origs[j])
		var got libOut
		if pooled != nil {
			got.Panic = safely(func() { got.Val, got.Err = pooled.Search(h.live[j]) })
		} else {
			got = libSearch(expr, h.live[j])
		}
		fresh := libCompileSearch(expr, ref.DeepCopy(orig))
		one := libSearch(expr, ref.DeepCopy(orig))
		// values returned earlier by this history's searches must not have changed since
		// (a result that aliases memory which a later search overwrites)
		for _, k := range h.kept {
			if now := show(k.val); now != k.shown {
				return "a value returned by an earlier Search changed when the expression was used again", k.shown, now
			}
		}
		if pooled != nil && got.Err == nil && got.Panic == nil && len(h.kept) < 12 {
			h.kept = append(h.kept, keptResult{val: got.Val, shown: show(got.Val)})
		}
		for _, o := range []libOut{got, fresh, one} {
			if o.Panic != nil {
				return "Search panicked", "", showOut(o)
			}
		}
		n, lst, perr := ref.ParseText(expr)
		if lst == ref.LexOutOfDomain {
			return "", "", "" // e.g. integers beyond int64: outside the domain of the reference model
		}
		if perr != nil {
			// not a sentence: the one-shot Search and Compile must both say so, whatever the document is
			if one.Err == nil || got.Err == nil || fresh.Compiled {
				return "an ungrammatical expression is not rejected alike by the one-shot Search and by Compile", "error from both", "one-shot: " + showOut(one) + " / compiled: " + showOut(fresh)
			}
			return "", "", ""
		}
		ev := &ref.Ev{}
		want, werr := ev.Eval(n, ref.DeepCopy(orig))
		if ei >= 0 {
			if h.searchesPerExpr[ei] >= 1 && (h.failedBefore[ei] || len(h.otherDocBefore[ei]) > 1 || !h.otherDocBefore[ei][j]) {
				h.interesting = true
			}
			h.searchesPerExpr[ei]++
			if h.otherDocBefore[ei] == nil {
				h.otherDocBefore[ei] = map[int]bool{}
			}
			h.otherDocBefore[ei][j] = true
			if got.Err != nil {
				h.failedBefore[ei] = true
			}
		}
		if (got.Err != nil) != (fresh.Err != nil) || (got.Err != nil) != (one.Err != nil) {
			if !ev.Ambiguous {
				return "a reused compiled expression, a fresh one and the one-shot Search disagree about failure",
					"fresh: " + showOut(fresh) + " one-shot: " + showOut(one), "reused: " + showOut(got)
			}
		}
		if !ev.Ambiguous {
			if (werr != nil) != (got.Err != nil) {
				return "result of a reused compiled expression differs from the specification (error presence)", fmt.Sprint(werr), showOut(got)
			}
			if werr == nil {
				for i, o := range []libOut{got, fresh, one} {
					if !ref.Matches(o.Val, want) {
						return "the " + []string{"reused compiled expression", "freshly compiled expression", "one-shot Search"}[i] + " returns a value that depends on history (differs from the model)", show(want), show(o.Val)
					}
				}
			}
		}
		// invariant: documents unchanged
		for k := range h.live {
			if !reflect.DeepEqual(h.live[k], mustJSON(h.origs[k])) {
				return fmt.Sprintf("pool document %d was modified", k), h.origs[k], show(h.live[k])
			}
		}
	case "parse":
		var d1, d2 string
		var e1, e2 error
		var n1 jp.ASTNode
		p1 := safely(func() {
			n, err := h.parser.Parse(a[1])
			e1 = err
			if err == nil {
				d1 = jp.VerifDumpAST(n)
				n1 = n
			}
		})
		p2 := safely(func() {
			n, err := jp.NewParser().Parse(a[1])
			e2 = err
			if err == nil {
				d2 = jp.VerifDumpAST(n)
			}
		})
		if p1 != nil || p2 != nil {
			return "Parse panicked", fmt.Sprint(p2), fmt.Sprint(p1)
		}
		if e1 != nil {
			h.invalidParses++
		} else if h.invalidParses > 0 {
			h.validAfterBad++
			h.interesting = true
		}
		if (e1 != nil) != (e2 != nil) || d1 != d2 {
			return "a reused Parser behaves differently from a fresh Parser", fmt.Sprint(d2, e2), fmt.Sprint(d1, e1)
		}
		if e1 != nil {
			if e1.Error() != e2.Error() || !reflect.DeepEqual(e1, e2) {
				return "a reused Parser reports a different error than a fresh Parser", fmt.Sprintf("%#v", e2), fmt.Sprintf("%#v", e1)
			}
		}
		// what the Parser returned earlier belongs to the caller: using the Parser again must not change it
		for _, k := range h.trees {
			var now string
			if pan := safely(func() { now = jp.VerifDumpAST(k.node) }); pan != nil || now != k.dump {
				return "a tree returned by an earlier Parse on the reused Parser changed when the Parser was used again (earlier expression: " + k.expr + ")", k.dump, now
			}
		}
		if e1 == nil && len(h.trees) < 8 {
			h.trees = append(h.trees, keptTree{n1, d1, a[1]})
		}
	}
	return "", "", ""
}

func historyCase(h *history) Case {
	hist := make([]interface{}, len(h.log))
	for i, a := range h.log {
		row := make([]interface{}, len(a))
		for k, s := range a {
			row[k] = s
		}
		hist[i] = row
	}
	return Case{Property: "C13", Kind: "history", Extra: map[string]interface{}{"history": hist}}
}

// predHistory replays a recorded history.
func predHistory(c Case) (r Result) {
	h := newHistory()
	rows, _ := c.Extra["history"].([]interface{})
	for _, row := range rows {
		cells := row.([]interface{})
		a := make([]string, len(cells))
		for i, x := range cells {
			a[i] = x.(string)
		}
		if v, e, g := h.apply(a); v != "" {
			r.Violation, r.Expected, r.Got = fmt.Sprintf("step %d %v: %s", len(h.log), a, v), e, g
			break
		}
	}
	r.Nontrivial = h.interesting
	return
}

var badExprs = []string{"'abc", "'a\\'b", "'x\\'y' 'zzz", "\"abc", "`1", "a # b", "'ok\\'' #", "a.", "a[", "a[0", "f(a,", "{a:", "a ||", "[?", "a[1:2:3:4]", "a b", "", "`{`", "\"\\x\"", "'q\\'r' . ", "a\u0080", "a[9223372036854775808]",
	"größe", "日本", "x٣", "é", "ǆ", "people.größe", "a-b", "a b", "1a", "$", "nums[1.0]", "nums[1e0]", "people[?name=]", "@@", "a..b", ".a", "a.", "[a", "`1`x", "'a'b", "\"a\"b"}

func TestC13(t *testing.T) {
	rapid.Check(t, func(t *rapid.T) {
		h := newHistory()
		fail := func(v, e, g string) {
			c := historyCase(h)
			c.Note, c.Expected, c.Got = v, e, g
			statsFor("C13").Record(c, Result{Nontrivial: true, Violation: v})
			p := writeReplay(c)
			t.Fatalf("VIOLATION-CASE file=%s history=%v: %s (expected %s, got %s)", p, h.log, v, e, g)
		}
		do := func(a ...string) {
			if v, e, g := h.apply(a); v != "" {
				fail(v, e, g)
			}
		}
		// start with two documents and one expression so that every action is enabled
		d0 := genUnsortedDoc(t)
		do("doc", ref.Canon(d0))
		do("doc", ref.Canon(genDoc(t)))
		genE := func(t *rapid.T) string {
			docv := mustJSON(h.origs[rapid.IntRange(0, len(h.origs)-1).Draw(t, "forDoc")])
			switch rapid.IntRange(0, 2).Draw(t, "exprSrc") {
			case 0:
				return c12LiteralExprs[rapid.IntRange(0, len(c12LiteralExprs)-1).Draw(t, "litExpr")]
			case 1:
				return c06Templates[rapid.IntRange(0, len(c06Templates)-1).Draw(t, "tmplExpr")]
			default:
				f := fragAll
				f.mismatch = 10
				return genExpr(t, docv, f)
			}
		}
		for len(h.exprs) == 0 { // (an expression the library may refuse, an integer beyond int64, does not join the pool)
			do("compile", genE(t))
		}
		t.Repeat(map[string]func(*rapid.T){
			"compile": func(t *rapid.T) {
				if len(h.exprs) >= 6 {
					t.Skip("pool full")
				}
				do("compile", genE(t))
			},
			"doc": func(t *rapid.T) {
				if len(h.origs) >= 6 {
					t.Skip("pool full")
				}
				if rapid.Bool().Draw(t, "unsorted") {
					do("doc", ref.Canon(genUnsortedDoc(t)))
				} else {
					do("doc", ref.Canon(genDoc(t)))
				}
			},
			"editDoc": func(t *rapid.T) {
				j := rapid.IntRange(0, len(h.origs)-1).Draw(t, "j")
				do("edit", fmt.Sprint(j), fmt.Sprint(rapid.IntRange(0, 4).Draw(t, "editMode")))
			},
			"search": func(t *rapid.T) {
				i := rapid.IntRange(0, len(h.exprs)-1).Draw(t, "i")
				j := rapid.IntRange(0, len(h.origs)-1).Draw(t, "j")
				do("search", fmt.Sprint(i), fmt.Sprint(j))
			},
			"repeat": func(t *rapid.T) {
				i := rapid.IntRange(0, len(h.exprs)-1).Draw(t, "i")
				j := rapid.IntRange(0, len(h.origs)-1).Draw(t, "j")
				for k := 0; k < rapid.IntRange(2, 4).Draw(t, "times"); k++ {
					do("search", fmt.Sprint(i), fmt.Sprint(j))
				}
			},
			"oneshot": func(t *rapid.T) {
				j := rapid.IntRange(0, len(h.origs)-1).Draw(t, "j")
				do("oneshot", genE(t), fmt.Sprint(j))
			},
			"oneshotInvalid": func(t *rapid.T) {
				j := rapid.IntRange(0, len(h.origs)-1).Draw(t, "j")
				do("oneshot", badExprs[rapid.IntRange(0, len(badExprs)-1).Draw(t, "bad1")], fmt.Sprint(j))
			},
			"parseValid": func(t *rapid.T) {
				do("parse", genE(t))
			},
			"parseInvalid": func(t *rapid.T) {
				if rapid.Bool().Draw(t, "fixedBad") {
					do("parse", badExprs[rapid.IntRange(0, len(badExprs)-1).Draw(t, "bad")])
				} else {
					do("parse", genBytes(t))
				}
			},
			"parseLongThenShort": func(t *rapid.T) {
				do("parse", ref.RenderSpaced(genSentence(t, 30)))
				do("parse", "a")
			},
			"": func(t *rapid.T) {
				for k := range h.live {
					if !reflect.DeepEqual(h.live[k], mustJSON(h.origs[k])) {
						fail(fmt.Sprintf("pool document %d was modified", k), h.origs[k], show(h.live[k]))
					}
				}
			},
		})
		c := historyCase(h)
		res := Result{Nontrivial: h.interesting}
		res.class(fmt.Sprintf("steps.%d0s", len(h.log)/10))
		if h.validAfterBad > 0 {
			res.class("parser.valid-after-invalid")
		}
		for _, n := range h.searchesPerExpr {
			if n >= 2 {
				res.class("expr.searched-repeatedly")
				break
			}
		}
		for _, f := range h.failedBefore {
			if f {
				res.class("expr.failed-then-reused")
				break
			}
		}
		statsFor("C13").Record(c, res)
	})
}

// rapidBool reads an optional boolean from the case's Extra (default when absent).
func rapidBool(c Case, key string, def bool) bool {
	if v, ok := c.Extra[key].(bool); ok {
		return v
	}
	return def
}

// varyDoc derives a variant of a document: 0 = copy, 1 = every array concatenated
// with itself, 2 = every array truncated to its first element.
func varyDoc(v interface{}, mode int) interface{} {
	switch t := v.(type) {
	case []interface{}:
		out := []interface{}{}
		for _, e := range t {
			out = append(out, varyDoc(e, mode))
		}
		switch mode {
		case 1:
			for _, e := range t {
				out = append(out, varyDoc(e, mode))
			}
		case 2:
			if len(out) > 1 {
				out = out[:1]
			}
		case 3:
			for i, j := 0, len(out)-1; i < j; i, j = i+1, j-1 {
				out[i], out[j] = out[j], out[i]
			}
		}
		return out
	case map[string]interface{}:
		out := map[string]interface{}{}
		for k, e := range t {
			out[k] = varyDoc(e, mode)
		}
		if mode == 5 {
			// every object has one member more (what is left behind in something that is
			// extended rather than rebuilt shows up as a member the next document never had)
			out["zz9"] = "left-over"
		}
		return out
	case float64:
		// modes 3 and 4: the same shape with other values of the same type (what a cache keyed
		// by value, or by something coarser than the value, would confuse)
		switch mode {
		case 3:
			if t == 0 {
				return -t // the other zero
			}
			if math.IsInf(t*1e21, 0) {
				return t // stay inside JSON data
			}
			return t * 1e21
		case 4:
			if t == 0 {
				return -t
			}
			return t * 1e-9
		}
	case string:
		switch mode {
		case 3:
			return "\ufffd" + t
		case 4:
			return t + "𝄞\u0301"
		}
	}
	return v
}

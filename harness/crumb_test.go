package harness

// Breadcrumb: the case about to run is copied into a memory-mapped file (no system call per
// case). When the library takes the whole test process down - a Go runtime fatal error such
// as a stack overflow or concurrent map writes cannot be recovered - the driver reads the
// file and reports the case that was running as the violation, instead of a harness error.

import (
	"encoding/binary"
	"encoding/json"
	"os"
	"sync"
	"syscall"
)

const crumbSize = 4 << 20

var (
	crumbOnce sync.Once
	crumbMu   sync.Mutex
	crumbMap  []byte
)

func crumbInit() {
	p := os.Getenv("VERIF_CRUMB_MMAP")
	if p == "" {
		return
	}
	f, err := os.OpenFile(p, os.O_RDWR|os.O_CREATE, 0o644)
	if err != nil {
		return
	}
	defer f.Close()
	if err := f.Truncate(crumbSize); err != nil {
		return
	}
	m, err := syscall.Mmap(int(f.Fd()), 0, crumbSize, syscall.PROT_READ|syscall.PROT_WRITE, syscall.MAP_SHARED)
	if err != nil {
		return
	}
	crumbMap = m
}

func leaveCrumb(c Case) {
	crumbOnce.Do(crumbInit)
	if crumbMap == nil {
		return
	}
	b, err := json.Marshal(c)
	if err != nil || len(b) > crumbSize-8 {
		b = []byte(`{"property":"` + c.Property + `","kind":"` + c.Kind + `","note":"case too large for the breadcrumb"}`)
	}
	crumbMu.Lock()
	binary.LittleEndian.PutUint32(crumbMap[0:4], 0)
	copy(crumbMap[8:], b)
	binary.LittleEndian.PutUint32(crumbMap[0:4], uint32(len(b)))
	crumbMu.Unlock()
}

func crumbEnabled() bool {
	crumbOnce.Do(crumbInit)
	return crumbMap != nil
}

// leaveCrumbRaw stores the concatenation of the parts (already JSON text).
func leaveCrumbRaw(parts ...[]byte) {
	crumbOnce.Do(crumbInit)
	if crumbMap == nil {
		return
	}
	n := 0
	for _, p := range parts {
		n += len(p)
	}
	if n > crumbSize-8 {
		return
	}
	crumbMu.Lock()
	binary.LittleEndian.PutUint32(crumbMap[0:4], 0)
	off := 8
	for _, p := range parts {
		copy(crumbMap[off:], p)
		off += len(p)
	}
	binary.LittleEndian.PutUint32(crumbMap[0:4], uint32(n))
	crumbMu.Unlock()
}

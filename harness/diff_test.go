package harness

// The differential predicate: library vs reference evaluator on a grammatical
// expression and a JSON document. Used by C01, C02, C07, C09, C10, C11 (each
// with its own generator and non-triviality rule).

import (
	"fmt"
	"sort"
	"strings"

	"verifharness/ref"
)

func init() {
	predicates["diff"] = predDiff
}

// nontrivialRules decide, per property, whether a differential case counts as
// non-trivial, from the reference evaluation's trace counters and result.
var nontrivialRules = map[string]func(st map[string]int, val interface{}, err error) bool{
	"C01": func(st map[string]int, val interface{}, err error) bool {
		if err != nil {
			return false
		}
		return val != nil || st["field.missing"] > 0 || st["index.outofrange"] > 0 || st["field.nonobject"] > 0 ||
			st["index.nonarray"] > 0 || st["multiselect.null"] > 0
	},
	"C02": func(st map[string]int, val interface{}, err error) bool {
		return st["proj.kept"] > 0 || st["proj.dropped-null"] > 0 || st["proj.lhs-nonarray"] > 0 || st["vproj.lhs-nonobject"] > 0 ||
			st["filter.lhs-nonarray"] > 0 || st["flatten.nested"] > 0 || st["filter.rejected"] > 0
	},
	"C07": func(st map[string]int, val interface{}, err error) bool {
		n := 0
		for k, v := range st {
			if strings.HasPrefix(k, "or.") || strings.HasPrefix(k, "and.") || k == "not" || strings.HasPrefix(k, "cmp.") {
				n += v
			}
		}
		return n >= 2
	},
	"C09": func(st map[string]int, val interface{}, err error) bool {
		if err != nil {
			return false
		}
		for k := range st {
			if strings.HasPrefix(k, "call.") && k != "call.error" {
				return true
			}
		}
		return false
	},
	"C10": func(st map[string]int, val interface{}, err error) bool {
		return st["call.error"] > 0 || st["byexpr.badkey"] > 0 || st["byexpr.mixedkey"] > 0
	},
	"C11": func(st map[string]int, val interface{}, err error) bool { return err != nil },
	"C03": func(st map[string]int, val interface{}, err error) bool { return false },
	"C05": func(st map[string]int, val interface{}, err error) bool { return true },
}

func predDiff(c Case) (r Result) {
	toks, st, why := ref.Lex(c.Expr)
	// an integer beyond int64 is an implementation limit: the library may refuse the text, but
	// if it takes it, the text means what the grammar says (an index no array has, a bound
	// beyond every end), not what is left of the integer after a wrap-around
	bigInt := st == ref.LexOutOfDomain && why == ref.WhyBigInt
	if st != ref.LexOK && !bigInt {
		r.Discard = "generator:not-lexable:" + why
		return
	}
	n, perr := ref.Parse(toks)
	if perr != nil {
		r.Discard = "generator:not-a-sentence"
		return
	}
	if bigInt {
		if _, cerr, pan := libCompile(c.Expr); pan == nil && cerr != nil {
			r.Discard = "out-of-domain:" + why + " (refused by the library)"
			return
		}
	}
	doc := mustJSON(c.Doc)
	ev := &ref.Ev{}
	want, werr := ev.Eval(n, ref.DeepCopy(doc))

	one := libSearch(c.Expr, ref.DeepCopy(doc))
	two, three := libCompileSearchTwice(c.Expr, doc)

	for k := range ev.Stats {
		r.class(k)
	}
	sort.Strings(r.Classes)
	if rule, ok := nontrivialRules[c.Property]; ok {
		r.Nontrivial = rule(ev.Stats, want, werr)
	} else {
		r.Nontrivial = true
	}
	if c.Extra["cell"] != nil {
		r.Nontrivial = true // a cell of an exhaustive table
	}

	whichNames := []string{"Search(expr, doc)", "Compile(expr).Search(doc)", "Compile(expr).Search(doc) repeated after searching other documents"}
	for i, o := range []libOut{one, two, three} {
		which := whichNames[i]
		if o.Panic != nil {
			r.Violation = which + " panicked"
			r.Got = showOut(o)
			return
		}
		if i == 1 && !o.Compiled {
			r.Violation = "Compile rejects a grammatical expression"
			r.Got = showOut(o)
			return
		}
	}
	if two.Mutated != "" && (c.Property == "C13" || c.Property == "C12") {
		// asserted only under the reuse/concurrency properties (elsewhere it is merely counted)
		r.Violation = "a value returned by Search changed after the compiled expression was used again"
		r.Got = two.Mutated
		return
	} else if two.Mutated != "" {
		r.class("returned-value-changed-later")
	}
	if ev.Ambiguous {
		r.Discard = "ambiguous:" + ev.Why
		r.Nontrivial = false
		return
	}
	for i, o := range []libOut{one, two, three} {
		which := whichNames[i]
		if i == 2 && !o.Compiled {
			continue
		}
		if werr != nil {
			r.class("result.error")
			if o.Err == nil {
				r.Violation = which + " returned a value where the specification requires an error (" + werr.Error() + ")"
				r.Expected, r.Got = "error: "+werr.Error(), showOut(o)
				return
			}
			if o.Val != nil {
				r.Violation = which + " returned both an error and a value"
				r.Expected, r.Got = "error and nil value", show(o.Val)
				return
			}
			continue
		}
		if o.Err != nil {
			r.Violation = which + " returned an error where the specification defines a value"
			r.Expected, r.Got = show(want), showOut(o)
			return
		}
		if !ref.Matches(o.Val, want) {
			r.Violation = which + " returned a different value than the specification defines"
			r.Expected, r.Got = show(want), show(o.Val)
			return
		}
	}
	if werr == nil {
		r.class("result." + ref.TypeName(want))
	}
	if (c.Property == "C13" || c.Property == "C12") && werr == nil && three.Compiled && !hasBag(want) {
		// the reuse properties demand more than agreement with the specification: where the
		// specification leaves the text of a value open (to_string of a number), every use of
		// the expression must still give the same answer as the one-shot Search
		if a, b := show(one.Val), show(three.Val); a != b {
			r.Violation = "a compiled expression that was used on other documents before returns a different value than the one-shot Search"
			r.Expected, r.Got = a, b
			return
		}
		if a, b := show(one.Val), show(two.Val); a != b {
			r.Violation = "a freshly compiled expression returns a different value than the one-shot Search"
			r.Expected, r.Got = a, b
			return
		}
	}
	return
}

func caseDiff(prop, expr string, doc interface{}) Case {
	return Case{Property: prop, Kind: "diff", Expr: expr, Doc: ref.Canon(doc)}
}

func describe(c Case) string { return fmt.Sprintf("%s on %s", c.Expr, c.Doc) }

// hasBag: the value contains a list whose order the specification leaves open.
func hasBag(v interface{}) bool {
	switch t := v.(type) {
	case ref.Bag:
		return true
	case ref.TextOf:
		return hasBag(t.V)
	case []interface{}:
		for _, e := range t {
			if hasBag(e) {
				return true
			}
		}
	case map[string]interface{}:
		for _, e := range t {
			if hasBag(e) {
				return true
			}
		}
	}
	return false
}

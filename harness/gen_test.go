package harness

// Generators. Every random choice goes through rapid so that cases shrink and
// replay. Expressions are generated as lexeme lists (concrete syntax) against
// a document ("document-aware"): the generator tracks a representative current
// value and mostly picks constructs that are meaningful for it, sometimes
// deliberately mismatching ones. The generator only shapes the distribution:
// the meaning of every generated text is decided by the reference model.

import (
	"encoding/json"
	"math/big"
	"strconv"
	"strings"
	"unicode/utf8"

	"pgregory.net/rapid"

	"verifharness/ref"
)

// ---------------------------------------------------------------------------
// Documents (G-doc)

var docKeys = []string{"a", "b", "c", "d", "", "é", "k-1", "a", "A", "B", "É", "a ", "in", "let", "null", "true", "not", "length"}
var docStrings = []string{"", "a", "b", "ab", "é", "𝒳y", "10", "1e2", "x y", "'", "\"", "\\", "`", "100%", "%s%d", "a%%b", "<&>", "\u2028", "l'été", "'𝄞", "it's", "a'b'c", "''"}
var docNumbers = []float64{0, 1, -1, 2, 3, 10, 0.5, -2.5, 1e15, 7}

// Text and numbers whose representation matters: code points at every UTF-8 length boundary,
// a replacement character, a combining mark and title-case digraphs at the start of a string,
// digit strings around 2^53, 2^63 and 2^64; numbers that print in exponent form, need 17
// significant digits, sit at the 2^53/2^63 boundaries or at the ends of the float64 range.
var hardDocStrings = []string{"\ufffd", "\ufffdabc", "\u007f", "\u0080", "\u07ff", "\u0800", "\uffff", "\U00010000", "\U0010ffff", "\u0301a", "ǆ", "ǅa", "ა", "ß", "İ", "\u0085", "\u00a0x", "\ufeffa", "a\u0000b",
	"9223372036854775807", "9223372036854775808", "9999999999999999999", "18446744073709551616", "9007199254740993", "0.23333333333333334", "-0", "1e400", "-1e-400", "1E+2", "12345678901234567890123", "é\u0301𝄞", "null", "true", "[]", "{}", "\"q\"",
	// text that looks like an escape sequence or a markup entity (serialisers that post-process their output)
	"\\u003c", "\\u003e\\u0026", "a\\nb", "\\\\", "\\\"", "\\u0041", "&lt;&amp;", "\\x41", "%41", "\\'", "\\`", "<>&", "</script>", "\\u2028",
	// a quote next to characters of two, three and four bytes (raw strings escape the quote: offsets counted in bytes vs runes)
	"é'é", "''é", "𝄞'", "'\u0080", "ა'ა'", "'\uffff'",
	// integers in other bases (text that strconv.ParseInt with base 0 reads, ParseFloat does not)
	"0x1F", "0o17", "0b101",
	// words of the library's own error messages (anything that classifies an error by its text)
	"popularity", "wrong number of args", "invalid arity", "unknown function: x", "Invalid type for: x", "<nil>",
	// the text of a surrogate escape (six plain characters)
	"\\ud800", "\\udfff", "\\ud83d\\ude00", "C:\\users\\udd00\\x"}
var hardDocNumbers = []float64{1e21, -1.5e300, 1e308, -1e308, 1.7976931348623157e308, 5e-324, 1e-7, 1.2345678901234568e-10, 6.02214076e23, 9007199254740992, 9007199254740993, 9223372036854775807, 9223372036854775808, 18446744073709551616,
	0.1, 0.23333333333333334, 1.4000000000000001, 1e20, 123456789012345680000, 1e-6, 0.000001234, 999999999999999900000, -1e21, 4.35, 0.30000000000000004, 2.5e-8, 1e16, 12345678.9}

// moderateOnly keeps the extreme numbers out of the documents (C16 quantifies over documents
// whose sums cannot overflow); it is set by a test before it generates anything.
var moderateOnly bool

// plainKeysOnly keeps keys that differ only by the case of their first letter out of generated
// objects (set by the test that lower-cases field names of struct documents).
var plainKeysOnly bool

type docOpts struct {
	maxDepth int
	maxWidth int
	moderate bool // numbers |x| <= 1e15 (always true here)
}

func genScalar(t *rapid.T) interface{} {
	switch uni(t, 10, "scalarKind") {
	case 0:
		return nil
	case 1:
		return rapid.Bool().Draw(t, "bool")
	case 2, 3, 4:
		if uni(t, 8, "negzero") == 0 {
			return negZero()
		}
		if !moderateOnly && uni(t, 8, "hardNum") == 0 {
			return hardDocNumbers[uni(t, len(hardDocNumbers), "hardNumIdx")]
		}
		return rapid.SampledFrom(docNumbers).Draw(t, "num")
	case 5:
		return float64(rapid.IntRange(-3, 12).Draw(t, "int"))
	default:
		if uni(t, 8, "hardStr") == 0 {
			return hardDocStrings[uni(t, len(hardDocStrings), "hardStrIdx")]
		}
		return rapid.SampledFrom(docStrings).Draw(t, "str")
	}
}

func negZero() float64 { z := 0.0; return -z }

func genValue(t *rapid.T, depth int, o docOpts) interface{} {
	if depth >= o.maxDepth {
		return genScalar(t)
	}
	switch uni(t, 10, "valueKind") {
	case 0, 1, 2:
		return genScalar(t)
	case 3, 4, 5:
		return genArray(t, depth, o)
	default:
		return genObject(t, depth, o)
	}
}

func genArray(t *rapid.T, depth int, o docOpts) interface{} {
	n := rapid.IntRange(0, o.maxWidth).Draw(t, "arrayLen")
	out := make([]interface{}, 0, n)
	shape := uni(t, 7, "arrayShape")
	if shape == 6 {
		// a long array of distinct numbers (indices >= 8 matter for number parsing)
		n = 9 + rapid.IntRange(0, 6).Draw(t, "longLen")
		for i := 0; i < n; i++ {
			out = append(out, float64(100+i))
		}
		return out
	}
	switch shape {
	case 0: // numbers
		for i := 0; i < n; i++ {
			out = append(out, float64(rapid.IntRange(-3, 9).Draw(t, "n")))
		}
	case 1: // strings
		for i := 0; i < n; i++ {
			out = append(out, rapid.SampledFrom(docStrings).Draw(t, "s"))
		}
	case 2: // objects sharing keys
		keys := []string{"a", "b", "c"}
		for i := 0; i < n; i++ {
			m := map[string]interface{}{}
			for _, k := range keys {
				if uni(t, 5, "hasKey") > 0 {
					m[k] = genValue(t, depth+2, o)
				}
			}
			out = append(out, m)
		}
	case 3: // arrays (for flatten)
		for i := 0; i < n; i++ {
			out = append(out, genArray(t, depth+1, o))
		}
	default: // heterogeneous
		for i := 0; i < n; i++ {
			out = append(out, genValue(t, depth+1, o))
		}
	}
	return out
}

func genObject(t *rapid.T, depth int, o docOpts) interface{} {
	n := rapid.IntRange(0, o.maxWidth).Draw(t, "objectLen")
	m := map[string]interface{}{}
	for i := 0; i < n; i++ {
		keys := docKeys
		if plainKeysOnly {
			keys = docKeys[:8]
		}
		k := rapid.SampledFrom(keys).Draw(t, "key")
		m[k] = genValue(t, depth+1, o)
	}
	return m
}

// sizes around the thresholds a developer might plausibly introduce (small-size fast
// paths, buffers, chunking, sort cut-offs)
var thresholdSizes = []int{7, 8, 9, 11, 12, 13, 15, 16, 17, 19, 20, 21, 24, 31, 32, 33, 40, 41, 63, 64, 65, 100, 127, 128, 129, 200, 255, 256, 257}

func bigSize(t *rapid.T, label string) int { return thresholdSizes[uni(t, len(thresholdSizes), label)] }

func bigString(t *rapid.T, n int) string {
	unit := []string{"a", "é", "𝒳", "ab", "x y", "%"}[uni(t, 6, "bigStrUnit")]
	var sb strings.Builder
	for i := 0; sb.Len() < n; i++ {
		sb.WriteString(unit)
		if i%7 == 6 {
			sb.WriteString(strconv.Itoa(i))
		}
	}
	return sb.String()
}

// genBigDoc: an object whose members include one big array, one big object and one
// long string (sizes around typical thresholds), plus ordinary small members.
func genBigDoc(t *rapid.T) interface{} {
	n := bigSize(t, "bigArr")
	arr := make([]interface{}, n)
	kind := uni(t, 5, "bigArrKind")
	for i := range arr {
		switch kind {
		case 0:
			arr[i] = float64((i * 7) % 23)
		case 1:
			arr[i] = []string{"b", "a", "é", "", "c"}[i%5] + strconv.Itoa(i%9)
		case 2:
			arr[i] = map[string]interface{}{"a": float64(n - i), "b": []string{"x", "y", "é"}[i%3], "c": float64(i % 4), "d": []interface{}{float64(i), float64(i % 3)}}
		case 3:
			if i%5 == 2 {
				arr[i] = nil
			} else {
				arr[i] = []interface{}{float64(i), []interface{}{float64(i % 2)}}
			}
		default:
			arr[i] = genScalar(t)
		}
	}
	m := bigSize(t, "bigObj")
	obj := map[string]interface{}{}
	for i := 0; i < m; i++ {
		obj["k"+strconv.Itoa(i)] = float64(i % 11)
	}
	o := docOpts{maxDepth: 3, maxWidth: 3}
	return map[string]interface{}{"a": arr, "b": obj, "c": bigString(t, bigSize(t, "bigStr")), "d": genValue(t, 1, o)}
}

// genDoc draws a document: mostly objects/arrays at the root, every type possible.
func genDoc(t *rapid.T) interface{} {
	o := docOpts{maxDepth: 4, maxWidth: 4}
	if uni(t, 12, "bigDoc") == 0 {
		return genBigDoc(t)
	}
	if uni(t, 10, "rootScalar") == 0 {
		return genScalar(t)
	}
	return genValue(t, 0, o)
}

// ---------------------------------------------------------------------------
// Expressions (G-ast)

type frag struct {
	projections bool
	boolean     bool // || && ! comparators
	functions   bool
	filters     bool
	slices      bool
	exprefAll   bool // all functions incl. by-expression ones
	maxDepth    int
	mismatch    int  // percentage of deliberately mismatching choices
	nav         bool // C18 navigational fragment: no object wildcard, no comparators, only length() of arrays/strings
}

var fragCore = frag{maxDepth: 5, mismatch: 20}
var fragProj = frag{projections: true, filters: true, slices: true, boolean: true, functions: true, exprefAll: true, maxDepth: 5, mismatch: 15}
var fragBool = frag{boolean: true, filters: true, projections: true, maxDepth: 5, mismatch: 15}
var fragAll = frag{projections: true, boolean: true, functions: true, filters: true, slices: true, exprefAll: true, maxDepth: 5, mismatch: 15}

type exprGen struct {
	t *rapid.T
	f frag
}

func (g *exprGen) n(max int, label string) int { return uni(g.t, max, label) }
func (g *exprGen) pct(p int, label string) bool {
	return uni(g.t, 128, label)*100 < p*128
}

// uni draws a (nearly) uniform value in [0, n). rapid's integer generators are
// deliberately biased towards small values and boundaries (measured: IntRange(0,99)
// yields a value below 3 in 26% of the draws), which is right for sizes but distorts
// categorical choices and percentages; uniform choices are assembled from single bits.
func uni(t *rapid.T, n int, label string) int {
	if n <= 1 {
		return 0
	}
	nbits := 0
	for (1 << uint(nbits)) < n {
		nbits++
	}
	for try := 0; try < 3; try++ {
		v := 0
		for b := 0; b < nbits; b++ {
			if rapid.Bool().Draw(t, label) {
				v |= 1 << uint(b)
			}
		}
		if v < n {
			return v
		}
	}
	return rapid.IntRange(0, n-1).Draw(t, label)
}

func spellKey(g *exprGen, k string) string {
	if ref.IsUnquotedIdentifier(k) && !g.pct(15, "quoteAnyway") {
		return k
	}
	if g.pct(20, "escapeKey") && utf8.ValidString(k) {
		// any of the legal spellings of each character (\u00e9 for é, surrogate pairs, \/ ...)
		return "\"" + escapeJSONString(g.t, k, '"') + "\""
	}
	return ref.QuoteJSON(k)
}

// (after the first eight: names that are words of other languages, of later JMESPath proposals or of JSON - plain identifiers here)
var vocabKeys = []string{"a", "b", "c", "d", "", "é", "k-1", "zz", "A", "É", "a ", "in", "let", "null", "true", "not", "length", "and", "as"}

func (g *exprGen) keyFor(cur interface{}) string {
	if m, ok := cur.(map[string]interface{}); ok && len(m) > 0 && !g.pct(g.f.mismatch, "missKey") {
		ks := ref.SortedKeys(m)
		return ks[g.n(len(ks), "key")]
	}
	if g.f.nav {
		// struct documents: a name is matched after upper-casing its first letter, so names that
		// differ only by that letter's case are not part of this vocabulary
		return vocabKeys[g.n(8, "vocabKey")]
	}
	return vocabKeys[g.n(len(vocabKeys), "vocabKey")]
}

func (g *exprGen) indexFor(cur interface{}) int {
	if a, ok := cur.([]interface{}); ok && len(a) > 0 && !g.pct(g.f.mismatch, "missIdx") {
		i := g.n(len(a), "idx")
		if g.pct(35, "negIdx") {
			return i - len(a)
		}
		return i
	}
	l := 0
	if a, ok := cur.([]interface{}); ok {
		l = len(a)
	}
	// boundary and out-of-range values
	c := []int{0, -1, l, -l - 1, l + 1, 1, -l}
	if g.pct(12, "extremeIdx") {
		c = []int{9223372036854775807, -9223372036854775808, -9223372036854775807, 4294967296, -4294967297, 2147483648}
	}
	return c[g.n(len(c), "edgeIdx")]
}

func (g *exprGen) literal() string {
	switch g.n(6, "litKind") {
	case 0:
		s := docStrings[g.n(len(docStrings), "rawStr")]
		if !strings.Contains(s, "\\") {
			return "'" + strings.Replace(s, "'", "\\'", -1) + "'"
		}
		return ref.SpellLiteral(s)
	case 1, 2:
		return ref.SpellLiteral(genScalar(g.t))
	default:
		v := genValue(g.t, 2, docOpts{maxDepth: 4, maxWidth: 3})
		if g.n(4, "litIndent") == 0 {
			// the same literal over several lines (JSON white space inside the backticks: tab, LF, CR, space)
			if b, err := json.MarshalIndent(v, []string{"", " ", "\t"}[g.n(3, "litPrefix")], []string{"\t", "  ", " \r"}[g.n(3, "litInd")]); err == nil {
				return "`" + strings.Replace(string(b), "`", "\\`", -1) + "`"
			}
		}
		return ref.SpellLiteral(v)
	}
}

// evalLex evaluates generated lexemes with the reference model (for tracking only).
func evalLex(lex []string, cur interface{}) interface{} {
	v, ev, err, perr := ref.EvalText(ref.RenderSpaced(lex), cur)
	if perr != nil || err != nil || ev.Ambiguous || ref.HasSpecial(v) {
		if b, ok := v.(ref.Bag); ok {
			return b.Items
		}
		if ref.HasSpecial(v) {
			return nil
		}
		return v
	}
	return v
}

// expr generates a complete expression to be evaluated against cur.
func (g *exprGen) expr(cur interface{}, depth int) []string {
	if depth >= g.f.maxDepth {
		return g.chain(cur, depth, 1)
	}
	roll := g.n(100, "exprForm")
	switch {
	case roll < 58:
		return g.chain(cur, depth, 4)
	case roll < 66:
		l := g.expr(cur, depth+1)
		lv := evalLex(l, cur)
		r := g.expr(lv, depth+1)
		return join(wrapIfLoose(l, "|"), []string{"|"}, wrapIfLoose(r, "|"))
	case roll < 72:
		inner := g.expr(cur, depth+1)
		return join([]string{"("}, inner, []string{")"})
	case roll < 75 && g.f.projections && !g.f.nav:
		return g.sharedHead(cur, depth+1)
	case roll < 90 && g.f.boolean:
		return g.boolean(cur, depth+1)
	default:
		return g.chain(cur, depth, 3)
	}
}

var sharedHeadLits = []string{"`[0,0,0]`", "`[1,2,3]`", "`[\"a\",\"b\",\"c\",\"d\",\"e\"]`", "`[1,2,3,4,5,6]`", "`[[1],[2],[3]]`", "`[0,1,2,3,4,5,6]`", "`[]`", "`[1]`", "`[[1,2,3],0]`"}

// sharedHead: the same list (a literal, which the compiled expression owns, or one list of the
// document) at the head of several independent flattens, merges or concatenations. Each of them
// must build its own result: whatever one of them appends behind the shared list must not be
// seen by the others. (JSON decoding leaves spare capacity behind arrays of 3, 5, 6, 7, ...
// elements, which is where an append that does not copy first puts the new elements.)
func (g *exprGen) sharedHead(cur interface{}, depth int) []string {
	var x []string
	if g.pct(50, "shLit") {
		x = []string{sharedHeadLits[g.n(len(sharedHeadLits), "shLitV")]}
	} else {
		x = g.chain(cur, depth, 2)
	}
	tail := func(label string) []string {
		if g.pct(50, label) {
			return []string{ref.SpellLiteral(genScalar(g.t))}
		}
		return g.chain(cur, depth, 2)
	}
	switch g.n(4, "shForm") {
	case 0: // two flattens with the same head, side by side
		return join([]string{"[", "["}, x, []string{","}, tail("shY"), []string{"]", "[]", ",", "["}, x, []string{","}, tail("shZ"), []string{"]", "[]", "]"})
	case 1: // one flatten per element of a projection, all with the same head
		p := g.chain(cur, depth, 2)
		return join(p, []string{"[*]", ".", "["}, x, []string{",", "@", "]", "[]"})
	case 2: // the same inside a hash, and once more at the end to see the head again
		p := g.chain(cur, depth, 2)
		return join([]string{"["}, p, []string{"[*]", ".", "{", "r", ":", "["}, x, []string{",", "@", "]", "[]", "}", ","}, x, []string{"]"})
	default: // through map()
		if !g.f.functions {
			return join([]string{"[", "["}, x, []string{",", "@", "]", "[]", ","}, x, []string{"]"})
		}
		p := g.chain(cur, depth, 2)
		return join([]string{"map", "(", "&", "["}, x, []string{",", "@", "]", "[]", ","}, p, []string{")"})
	}
}

func join(parts ...[]string) []string {
	var out []string
	for _, p := range parts {
		out = append(out, p...)
	}
	return out
}

// wrapIfLoose optionally parenthesises (the generator also wants unparenthesised
// mixtures: their grouping is decided by the reference parser, not here).
func wrapIfLoose(l []string, _ string) []string { return l }

var cmpOps = []string{"==", "!=", "<", "<=", ">", ">="}

func (g *exprGen) boolean(cur interface{}, depth int) []string {
	form := g.n(10, "boolForm")
	if g.f.nav && form >= 5 {
		form = form - 5
	}
	switch form {
	case 0, 1:
		return join([]string{"!"}, g.operand(cur, depth))
	case 2, 3, 4:
		op := "||"
		if g.pct(50, "andOr") {
			op = "&&"
		}
		return join(g.operand(cur, depth), []string{op}, g.operand(cur, depth))
	default:
		op := cmpOps[g.n(len(cmpOps), "cmpOp")]
		l := g.operand(cur, depth)
		var r []string
		if g.pct(50, "cmpLit") {
			// compare with the value itself or something near it
			lv := evalLex(l, cur)
			if g.pct(60, "cmpSame") && !ref.HasSpecial(lv) {
				r = []string{ref.SpellLiteral(lv)}
			} else {
				r = []string{ref.SpellLiteral(genScalar(g.t))}
			}
		} else {
			r = g.operand(cur, depth)
		}
		return join(l, []string{op}, r)
	}
}

// operand: an expression, sometimes parenthesised, sometimes bare.
func (g *exprGen) operand(cur interface{}, depth int) []string {
	e := g.expr(cur, depth+1)
	if g.pct(40, "parenOperand") {
		return join([]string{"("}, e, []string{")"})
	}
	return e
}

// candidates lists sub-values of cur reachable by a short expression.
type cand struct {
	lex []string
	val interface{}
}

func (g *exprGen) candidates(cur interface{}) []cand {
	out := []cand{{[]string{"@"}, cur}}
	if m, ok := cur.(map[string]interface{}); ok {
		for _, k := range ref.SortedKeys(m) {
			out = append(out, cand{[]string{ref.SpellIdentifier(k)}, m[k]})
			if mm, ok := m[k].(map[string]interface{}); ok {
				for _, k2 := range ref.SortedKeys(mm) {
					out = append(out, cand{[]string{ref.SpellIdentifier(k), ".", ref.SpellIdentifier(k2)}, mm[k2]})
				}
			}
		}
	}
	if a, ok := cur.([]interface{}); ok {
		for i, e := range a {
			if i >= 3 {
				break
			}
			out = append(out, cand{[]string{"[", strconv.Itoa(i), "]"}, e})
		}
	}
	return out
}

func typeOK(v interface{}, ts []ref.PType) bool {
	for _, t := range ts {
		if ref.HasType(v, t) {
			return true
		}
	}
	return false
}

func litOfType(g *exprGen, ts []ref.PType) string {
	switch ts[g.n(len(ts), "litType")] {
	case ref.PNumber:
		return ref.SpellLiteral(docNumbers[g.n(len(docNumbers), "ln")])
	case ref.PString:
		s := docStrings[g.n(len(docStrings), "ls")]
		return ref.SpellLiteral(s)
	case ref.PArray:
		return ref.SpellLiteral(genArray(g.t, 2, docOpts{maxDepth: 4, maxWidth: 4}))
	case ref.PObject:
		return ref.SpellLiteral(genObject(g.t, 2, docOpts{maxDepth: 4, maxWidth: 3}))
	case ref.PArrayNumber:
		n := g.n(5, "lan")
		a := make([]interface{}, n)
		for i := range a {
			a[i] = docNumbers[g.n(len(docNumbers), "lane")]
		}
		return ref.SpellLiteral(a)
	case ref.PArrayString:
		n := g.n(5, "las")
		a := make([]interface{}, n)
		for i := range a {
			a[i] = docStrings[g.n(len(docStrings), "lase")]
		}
		return ref.SpellLiteral(a)
	}
	return ref.SpellLiteral(genValue(g.t, 2, docOpts{maxDepth: 4, maxWidth: 3}))
}

// argFor generates an argument expression that (mostly) has one of the types ts.
func (g *exprGen) argFor(cur interface{}, ts []ref.PType, depth int) ([]string, interface{}) {
	if g.pct(g.f.mismatch, "illTyped") {
		e := g.expr(cur, depth+1)
		return e, evalLex(e, cur)
	}
	var fits []cand
	for _, c := range g.candidates(cur) {
		if typeOK(c.val, ts) {
			fits = append(fits, c)
		}
	}
	if len(fits) > 0 && g.pct(75, "argFromDoc") {
		c := fits[g.n(len(fits), "argCand")]
		return c.lex, c.val
	}
	l := litOfType(g, ts)
	return []string{l}, evalLex([]string{l}, nil)
}

func firstElem(v interface{}) interface{} {
	if a, ok := v.([]interface{}); ok && len(a) > 0 {
		return a[0]
	}
	return nil
}

// call generates a function call evaluated against cur.
func (g *exprGen) call(cur interface{}, depth int) []string {
	if g.f.nav {
		var fits []cand
		for _, c := range g.candidates(cur) {
			switch c.val.(type) {
			case []interface{}, string:
				fits = append(fits, c)
			}
		}
		if len(fits) == 0 {
			return []string{"length", "(", "'abc'", ")"}
		}
		c := fits[g.n(len(fits), "navLen")]
		return join([]string{"length", "("}, c.lex, []string{")"})
	}
	names := ref.FunctionNames
	name := names[g.n(len(names), "fn")]
	if g.pct(3, "unknownFn") {
		name = []string{"foo", "Length", "abs2", "_", "to_str"}[g.n(5, "unkName")]
	}
	sig, known := ref.Sigs[name]
	if !known {
		return join([]string{name, "("}, g.expr(cur, depth+1), []string{")"})
	}
	nargs := len(sig.Params)
	if sig.Variadic {
		nargs += g.n(3, "extraArgs")
		if g.pct(4, "manyArgs") {
			nargs = thresholdSizes[g.n(12, "manyArgsN")]
		}
	}
	if g.pct(4, "badArity") {
		nargs = g.n(4, "arity")
	}
	out := []string{name, "("}
	var prevVal interface{}
	for i := 0; i < nargs; i++ {
		pi := i
		if pi >= len(sig.Params) {
			pi = len(sig.Params) - 1
		}
		ts := sig.Params[pi]
		if i > 0 {
			out = append(out, ",")
		}
		if len(ts) == 1 && ts[0] == ref.PExpref {
			var elem interface{}
			if name == "map" {
				// array comes second: generate it first to know the element
				arr, av := g.argFor(cur, []ref.PType{ref.PArray}, depth)
				elem = firstElem(av)
				out = append(out, "&")
				out = append(out, g.keyExpr(elem, depth+1)...)
				out = append(out, ",")
				out = append(out, arr...)
				i++
				continue
			}
			elem = firstElem(prevVal)
			out = append(out, "&")
			out = append(out, g.keyExpr(elem, depth+1)...)
			continue
		}
		if g.pct(3, "exprefWhereValue") {
			out = append(out, "&", "@")
			continue
		}
		a, av := g.argFor(cur, ts, depth)
		prevVal = av
		out = append(out, a...)
	}
	out = append(out, ")")
	return out
}

// keyExpr: an expression for a by-expression key, evaluated against an element.
func (g *exprGen) keyExpr(elem interface{}, depth int) []string {
	if m, ok := elem.(map[string]interface{}); ok && len(m) > 0 && g.pct(70, "keyField") {
		ks := ref.SortedKeys(m)
		return []string{ref.SpellIdentifier(ks[g.n(len(ks), "keyName")])}
	}
	switch g.n(6, "keyForm") {
	case 0, 1:
		return []string{"@"}
	case 2:
		return []string{"length", "(", "@", ")"}
	case 3:
		return []string{"to_string", "(", "@", ")"}
	default:
		return g.expr(elem, depth+1)
	}
}

func (g *exprGen) multiselect(cur interface{}, depth int, afterDot bool) []string {
	n := 1 + g.n(3, "msLen")
	if g.pct(2, "bigMs") {
		n = thresholdSizes[g.n(12, "bigMsLen")]
		// many members: keep each one small
		out := []string{"["}
		for i := 0; i < n; i++ {
			if i > 0 {
				out = append(out, ",")
			}
			out = append(out, g.chain(cur, g.f.maxDepth, 1)...)
		}
		return append(out, "]")
	}
	if g.pct(50, "msHash") {
		out := []string{"{"}
		used := map[string]bool{}
		for i := 0; i < n; i++ {
			nk := len(vocabKeys)
			if g.f.nav {
				nk = 8
			}
			k := vocabKeys[g.n(nk, "msKey")]
			if used[k] {
				continue
			}
			used[k] = true
			if len(out) > 1 {
				out = append(out, ",")
			}
			out = append(out, spellKey(g, k), ":")
			out = append(out, g.expr(cur, depth+1)...)
		}
		return append(out, "}")
	}
	out := []string{"["}
	for i := 0; i < n; i++ {
		if i > 0 {
			out = append(out, ",")
		}
		out = append(out, g.expr(cur, depth+1)...)
	}
	return append(out, "]")
}

func (g *exprGen) sliceText(cur interface{}) []string {
	l := 0
	if a, ok := cur.([]interface{}); ok {
		l = len(a)
	}
	part := func(label string) []string {
		if g.pct(35, label+"Absent") {
			return nil
		}
		if g.pct(6, label+"Extreme") {
			ext := []string{"9223372036854775807", "-9223372036854775808", "-9223372036854775807", "4611686018427387904", "2147483648", "-2147483649",
				// beyond int64, congruent to small values modulo 2^64 (see indexText)
				"18446744073709551616", "18446744073709551617", "18446744073709551615", "-18446744073709551615", "-18446744073709551617", "9223372036854775808", "-9223372036854775809", "36893488147419103233"}
			return []string{ext[g.n(len(ext), label+"ExtV")]}
		}
		v := g.n(2*l+5, label) - l - 2
		return []string{g.spellInt(v)}
	}
	out := []string{"["}
	out = append(out, part("slStart")...)
	out = append(out, ":")
	out = append(out, part("slStop")...)
	if g.pct(50, "slHasStep") {
		out = append(out, ":")
		st := part("slStep")
		out = append(out, st...)
	}
	return append(out, "]")
}

// stepKind picks the kind of the next step from the type of the representative
// value: mostly something meaningful for it, sometimes a deliberate mismatch.
func (g *exprGen) stepKind(rep interface{}, first bool) string {
	if g.pct(g.f.mismatch, "mismatchStep") {
		return []string{"key", "index", "proj", "multiselect", "call", "key"}[g.n(6, "anyStep")]
	}
	switch v := rep.(type) {
	case map[string]interface{}:
		r := g.n(100, "objStep")
		switch {
		case r < 62:
			return "key"
		case r < 74:
			return "proj"
		case r < 86:
			return "multiselect"
		default:
			return "call"
		}
	case []interface{}:
		_ = v
		r := g.n(100, "arrStep")
		switch {
		case r < 34:
			return "index"
		case r < 74:
			return "proj"
		case r < 84:
			return "multiselect"
		default:
			return "call"
		}
	case nil:
		if first {
			return []string{"key", "at", "literal", "index"}[g.n(4, "nullFirst")]
		}
		return "stop"
	default:
		if first {
			return []string{"at", "literal", "call", "multiselect"}[g.n(4, "scalarFirst")]
		}
		r := g.n(100, "scalarStep")
		switch {
		case r < 55:
			return "stop"
		case r < 80:
			return "call"
		default:
			return "multiselect"
		}
	}
}

// chain generates primary + postfix steps.
func (g *exprGen) chain(cur interface{}, depth int, maxSteps int) []string {
	var lex []string
	rep := cur // representative current value for the next step
	kind := g.stepKind(rep, true)
	if g.pct(8, "litPrimary") {
		kind = "literal"
	} else if g.pct(6, "atPrimary") {
		kind = "at"
	}
	if depth >= g.f.maxDepth && (kind == "multiselect" || kind == "call") {
		kind = "key"
	}
	if kind == "call" && !g.f.functions {
		kind = "multiselect"
		if depth >= g.f.maxDepth {
			kind = "key"
		}
	}
	if kind == "proj" && !g.f.projections {
		kind = "index"
	}
	switch kind {
	case "at", "stop":
		lex = []string{"@"}
	case "literal":
		lex = []string{g.literal()}
		rep = evalLex(lex, nil)
	case "multiselect":
		lex = g.multiselect(rep, depth, false)
		rep = evalLex(lex, rep)
	case "call":
		lex = g.call(rep, depth)
		rep = evalLex(lex, rep)
	case "index":
		txt, i := g.indexText(rep)
		lex = []string{"[", txt, "]"}
		rep = stepIndex(rep, i)
	case "proj":
		lex, rep = g.projStep(nil, rep, cur, depth, true)
	default:
		k := g.keyFor(rep)
		lex = []string{spellKey(g, k)}
		rep = stepField(rep, k)
	}
	steps := g.n(maxSteps+1, "steps")
	for s := 0; s < steps; s++ {
		kind := g.stepKind(rep, false)
		if depth >= g.f.maxDepth && (kind == "multiselect" || kind == "call") {
			kind = "key"
		}
		if kind == "call" && !g.f.functions {
			kind = "key"
		}
		if kind == "proj" && !g.f.projections {
			kind = "index"
		}
		switch kind {
		case "stop":
			return lex
		case "index":
			txt, i := g.indexText(rep)
			lex = append(lex, "[", txt, "]")
			rep = stepIndex(rep, i)
		case "multiselect":
			lex = append(lex, ".")
			ms := g.multiselect(rep, depth, true)
			lex = append(lex, ms...)
			rep = evalLex(ms, rep)
		case "call":
			lex = append(lex, ".")
			c := g.call(rep, depth)
			lex = append(lex, c...)
			rep = evalLex(c, rep)
		case "proj":
			lex, rep = g.projStep(lex, rep, cur, depth, false)
		default:
			k := g.keyFor(rep)
			lex = append(lex, ".", spellKey(g, k))
			rep = stepField(rep, k)
		}
	}
	return lex
}

// projStep appends a projection-creating step and returns the new representative.
func (g *exprGen) projStep(lex []string, rep interface{}, root interface{}, depth int, first bool) ([]string, interface{}) {
	pickElem := func(v interface{}) interface{} {
		if a, ok := v.([]interface{}); ok && len(a) > 0 {
			return a[g.n(len(a), "repElem")]
		}
		return nil
	}
	roll := g.n(100, "projKind")
	if g.f.nav && roll >= 30 && roll < 45 {
		roll = 0
	}
	switch {
	case roll < 30:
		lex = append(lex, "[", "*", "]")
		return lex, pickElem(rep)
	case roll < 45:
		if first {
			lex = append(lex, "*")
		} else {
			lex = append(lex, ".", "*")
		}
		if m, ok := rep.(map[string]interface{}); ok && len(m) > 0 {
			ks := ref.SortedKeys(m)
			return lex, m[ks[g.n(len(ks), "repMember")]]
		}
		return lex, nil
	case roll < 62:
		lex = append(lex, "[]")
		whole := evalLex(lex, root)
		return lex, pickElem(whole)
	case roll < 82 && g.f.filters && depth < g.f.maxDepth:
		e := pickElem(rep)
		lex = append(lex, "[?")
		lex = append(lex, g.cond(e, depth+1)...)
		lex = append(lex, "]")
		return lex, e
	case g.f.slices:
		lex = append(lex, g.sliceText(rep)...)
		return lex, pickElem(rep)
	default:
		lex = append(lex, "[", "*", "]")
		return lex, pickElem(rep)
	}
}

// cond generates a filter condition against a representative element.
func (g *exprGen) cond(elem interface{}, depth int) []string {
	if !g.f.boolean || g.pct(25, "plainCond") {
		return g.chain(elem, depth, 1)
	}
	return g.boolean(elem, depth)
}

// spellInt writes an index or slice part, sometimes zero padded ("number" is
// ["-"] 1*digit: leading zeros are decimal, not octal).
// indexText spells an index. Rarely (2 %) it is an integer beyond int64 that is congruent modulo
// 2^64 (or 2^32) to a valid index: the grammar puts no bound on integers, so an implementation may
// refuse such a text, but if it accepts it the index is out of range for every array.
func (g *exprGen) indexText(cur interface{}) (string, int) {
	i := g.indexFor(cur)
	if !g.pct(2, "wrapIdx") {
		return g.spellInt(i), i
	}
	return wrapInt(i, g.n(5, "wrapKind")), 9223372036854775807
}

func wrapInt(i int, kind int) string {
	v := big.NewInt(int64(i))
	two64 := new(big.Int).Lsh(big.NewInt(1), 64)
	switch kind {
	case 0:
		v.Add(v, two64)
	case 1:
		v.Sub(v, two64)
	case 2:
		v.Add(v, new(big.Int).Lsh(big.NewInt(1), 65))
	case 3:
		v.Add(v, new(big.Int).Lsh(big.NewInt(1), 63)).Add(v, new(big.Int).Lsh(big.NewInt(1), 63)).Add(v, two64)
	default:
		v.Add(v, new(big.Int).Mul(two64, big.NewInt(10)))
	}
	return v.String()
}

func (g *exprGen) spellInt(i int) string {
	if !g.pct(10, "padInt") {
		return strconv.Itoa(i)
	}
	pad := []string{"0", "00", "000"}[g.n(3, "padLen")]
	digits := strconv.Itoa(i)
	if i < 0 {
		return "-" + pad + digits[1:] // (not -i: the smallest integer has no positive counterpart)
	}
	return pad + digits
}

func stepField(v interface{}, k string) interface{} {
	if m, ok := v.(map[string]interface{}); ok {
		return m[k]
	}
	return nil
}

func stepIndex(v interface{}, i int) interface{} {
	if a, ok := v.([]interface{}); ok {
		if i < 0 {
			i += len(a)
		}
		if i >= 0 && i < len(a) {
			return a[i]
		}
	}
	return nil
}

// genExpr draws a sentence for doc in the given fragment and renders it with
// one of the whitespace styles.
func genExpr(t *rapid.T, doc interface{}, f frag) string {
	g := &exprGen{t: t, f: f}
	lex := g.expr(doc, 0)
	return renderRandom(t, lex)
}

var wsChoices = []string{"", "", " ", " ", "  ", "\t", "\n", "\r\n", "\r", "\r ", " \r\t", "\n\r"}

func renderRandom(t *rapid.T, lex []string) string {
	switch uni(t, 4, "render") {
	case 0:
		return ref.RenderTight(lex)
	case 1:
		return ref.RenderSpaced(lex)
	default:
		seps := make([]string, len(lex))
		for i := range seps {
			seps[i] = wsChoices[uni(t, len(wsChoices), "ws")]
		}
		return ref.Render(lex, func(i int) string { return seps[i] })
	}
}

module verifharness

go 1.23

toolchain go1.23.5

require (
	github.com/jmespath/go-jmespath v0.4.0
	pgregory.net/rapid v1.3.0
)

replace github.com/jmespath/go-jmespath => /repo

package harness

// Producer x consumer grid: every way of obtaining an array (a document path, a literal,
// and every construct or function that hands its argument or an element of it back
// unchanged) under every construct that builds a new array from it. Judged by the
// predicate of the property named by VERIF_PROP (differential with the history leg,
// no-mutation, JSON data, pipe law): an implementation that treats "came out of a function"
// or "came out of a sub-expression" as "is a private temporary" fails here.

import (
	"fmt"
	"strings"
	"testing"
)

const gridDoc = `{"people":[null,{"name":"b","age":2,"tags":["y","x"]},{"name":"a","age":3,"tags":[]},null,{"name":"c","age":1,"tags":["z"]},null],"nums":[3,1,2,null,0],"strs":["b","a"],"lists":[[2,1],[3],[],[5,4,6]],"o1":{"k":[2,1],"j":[1]},"missing":null}`

var gridObjSrc = []string{"people", "`[{\"name\":\"b\",\"age\":2,\"tags\":[\"y\",\"x\"]},{\"name\":\"a\",\"age\":3,\"tags\":[]},null,{\"name\":\"c\",\"age\":1,\"tags\":[\"z\"]}]`"}
var gridNumSrc = []string{"nums", "`[3,1,null,2,0]`", "lists[3]", "o1.k"}

// constructs that may return their operand (or an element of it) by reference
var gridPass = []string{"%s", "(%s)", "to_array(%s)", "not_null(%s)", "not_null(missing, %s)", "not_null(%s, `[]`)", "max_by([%s, `[]`], &length(@))", "min_by([%s], &length(@))", "(%s || `[1]`)", "(`true` && %s)",
	"[%s][0]", "[`0`, %s][1]", "{a: %s}.a", "(@ | %s)", "[%s][*][0]", "[%s][] | @", "values({a: %s})[0]", "map(&@, [%s])[0]", "merge({a: %s}).a", "[%s, `[]`][?@][0]", "[%s][::-1][0]", "reverse([%s])[0]", "sort_by([%s], &length(@))[0]"}

var gridObjUse = []string{"%s[*].name", "%s[*].tags[]", "%s[].name", "%s[?age > `1`].name", "%s[1:].name", "%s[::-1][0].name", "%s[*]", "%s[]", "%s[?name]", "%s[:2]", "sort_by(%s[?name], &name)[*].name", "%s[?name] | sort_by(@, &age) | [0].name",
	"map(&name, %s)", "%s[*].[name]", "%s[*].{n: name}", "reverse(%s)[0].name", "max_by(%s[?age], &age).name", "%s[*].tags | [0]", "%s[?tags].tags[::-1]", "[%s[*].name, %s[0].name]", "%s[*].name | [@, @]", "length(%s)", "%s[1].tags[*]",
	// by-expression functions straight on the array with its null elements (error paths touch the argument too)
	"max_by(%s, &age)", "min_by(%s, &name)", "sort_by(%s, &age)", "max_by(%s, &not_null(age, `0`)).name", "min_by(%s, &not_null(name, 'zz')).age", "sort_by(%s, &not_null(age, `0`))[*].name", "map(&age, %s)", "%s[?@ == null]"}

var gridNumUse = []string{"sort(%s[?@ || @ == `0`])", "%s[*]", "%s[*].abs(@)", "reverse(%s)", "%s[?@ > `1`]", "%s[]", "%s[1:]", "%s[::-1]", "%s[::2]", "%s | [?@ != null] | sort(@) | [0]", "[%s[*], %s[0]]", "map(&type(@), %s)", "%s[*].[@]", "%s[?@ == `0` || @][*].to_string(@)",
	"sort_by(%s[?type(@) == 'number'], &@)", "max_by(%s[?type(@) == 'number'], &@)", "contains(%s, `2`)", "to_array(%s)[*].not_null(@, `9`)", "not_null(%s)[1:][*]",
	"max_by(%s, &@)", "min_by(%s, &@)", "sort_by(%s, &@)", "max_by(%s, &not_null(@, `-1`))", "min_by(%s, &not_null(@, `99`))", "sort_by(%s, &not_null(@, `1`))", "sort(%s)", "max(%s)", "sum(%s)", "avg(%s)", "join(',', %s)"}

type gridCell struct{ prod, use string }

func (g gridCell) expr() string { return strings.Replace(g.use, "%s", g.prod, -1) }

func gridCells() []gridCell {
	var out []gridCell
	for _, pair := range []struct{ src, use []string }{{gridObjSrc, gridObjUse}, {gridNumSrc, gridNumUse}} {
		for _, s := range pair.src {
			for _, p := range gridPass {
				prod := strings.Replace(p, "%s", s, -1)
				for _, u := range pair.use {
					out = append(out, gridCell{prod, u})
				}
			}
		}
	}
	return out
}

func gridExprs() []string {
	var out []string
	for _, g := range gridCells() {
		out = append(out, g.expr())
	}
	return out
}

func init() {
	// the random tests of C06, C12 and C13 draw from these pools too
	g := gridExprs()
	for i, e := range g {
		if i%7 == 0 {
			c06Templates = append(c06Templates, e)
		}
		if i%11 == 0 && !strings.Contains(e, "people") && !strings.Contains(e, "lists") {
			c12LiteralExprs = append(c12LiteralExprs, e)
		}
	}
}

// TestProducerConsumerGrid runs the whole grid under the property named by VERIF_PROP.
func TestProducerConsumerGrid(t *testing.T) {
	prop := envStr("VERIF_PROP", "C06")
	kind := map[string]string{"C06": "nomutate", "C16": "jsondata", "C15": "pipe"}[prop]
	if kind == "" {
		kind = "diff"
	}
	shard, nshards := envInt("VERIF_SHARD", 0), envInt("VERIF_NSHARDS", 1)
	n := 0
	for i, g := range gridCells() {
		if i%nshards != shard {
			continue
		}
		for _, d := range []string{gridDoc, `{"people":[],"nums":[],"lists":[[],[],[],[]],"o1":{"k":[]}}`} {
			if kind == "pipe" {
				// the pipe law with the producer as first and the consumer as second step
				run(t, Case{Property: prop, Kind: kind, Expr: g.prod, Doc: d, Extra: map[string]interface{}{"b": strings.Replace(g.use, "%s", "@", -1)}})
			} else {
				run(t, Case{Property: prop, Kind: kind, Expr: g.expr(), Doc: d, Extra: map[string]interface{}{"cell": "grid"}})
			}
			n++
		}
	}
	st := statsFor(prop)
	st.mu.Lock()
	st.Exhaustive[prop+".producer-consumer-grid"] = fmt.Sprintf("%d ways of obtaining an array (paths, literals, %d pass-through constructs and functions) x %d/%d array-building consumers, on a populated and an empty document (shard %d/%d: %d cases)",
		(len(gridObjSrc)+len(gridNumSrc))*len(gridPass), len(gridPass), len(gridObjUse), len(gridNumUse), shard, nshards, n)
	st.mu.Unlock()
}

package harness

// Producer x consumer grid: every way of obtaining an array (a document path, a literal,
// and every construct or function that hands its argument or an element of it back
// unchanged) under every construct that builds a new array from it. Judged by the
// predicate of the property named by VERIF_PROP (differential with the history leg,
// no-mutation, JSON data, pipe law): an implementation that treats "came out of a function"
// or "came out of a sub-expression" as "is a private temporary" fails here.

import (
	"fmt"
	"strings"
	"testing"
)

const gridDoc = `{"people":[null,{"name":"b","age":2,"tags":["y","x"]},{"name":"a","age":3,"tags":[]},null,{"name":"c","age":1,"tags":["z"]},null],"nums":[3,1,2,null,0],"strs":["b","a"],"lists":[[2,1],[3],[],[5,4,6]],"o1":{"k":[2,1],"j":[1]},"missing":null}`

var gridObjSrc = []string{"people", "`[{\"name\":\"b\",\"age\":2,\"tags\":[\"y\",\"x\"]},{\"name\":\"a\",\"age\":3,\"tags\":[]},null,{\"name\":\"c\",\"age\":1,\"tags\":[\"z\"]}]`"}
var gridNumSrc = []string{"nums", "`[3,1,null,2,0]`", "lists[3]", "o1.k"}

// constructs that may return their operand (or an element of it) by reference
var gridPass = []string{"%s", "(%s)", "to_array(%s)", "not_null(%s)", "not_null(missing, %s)", "not_null(%s, `[]`)", "max_by([%s, `[]`], &length(@))", "min_by([%s], &length(@))", "(%s || `[1]`)", "(`true` && %s)",
	"[%s][0]", "[`0`, %s][1]", "{a: %s}.a", "(@ | %s)", "[%s][*][0]", "[%s][] | @", "values({a: %s})[0]", "map(&@, [%s])[0]", "merge({a: %s}).a", "[%s, `[]`][?@][0]", "[%s][::-1][0]", "reverse([%s])[0]", "sort_by([%s], &length(@))[0]"}

var gridObjUse = []string{"%s[*].name", "%s[*].tags[]", "%s[].name", "%s[?age > `1`].name", "%s[1:].name", "%s[::-1][0].name", "%s[*]", "%s[]", "%s[?name]", "%s[:2]", "sort_by(%s[?name], &name)[*].name", "%s[?name] | sort_by(@, &age) | [0].name",
	"map(&name, %s)", "%s[*].[name]", "%s[*].{n: name}", "reverse(%s)[0].name", "max_by(%s[?age], &age).name", "%s[*].tags | [0]", "%s[?tags].tags[::-1]", "[%s[*].name, %s[0].name]", "%s[*].name | [@, @]", "length(%s)", "%s[1].tags[*]",
	// by-expression functions straight on the array with its null elements (error paths touch the argument too)
	"max_by(%s, &age)", "min_by(%s, &name)", "sort_by(%s, &age)", "max_by(%s, &not_null(age, `0`)).name", "min_by(%s, &not_null(name, 'zz')).age", "sort_by(%s, &not_null(age, `0`))[*].name", "map(&age, %s)", "%s[?@ == null]"}

var gridNumUse = []string{"sort(%s[?@ || @ == `0`])", "%s[*]", "%s[*].abs(@)", "reverse(%s)", "%s[?@ > `1`]", "%s[]", "%s[1:]", "%s[::-1]", "%s[::2]", "%s | [?@ != null] | sort(@) | [0]", "[%s[*], %s[0]]", "map(&type(@), %s)", "%s[*].[@]", "%s[?@ == `0` || @][*].to_string(@)",
	"sort_by(%s[?type(@) == 'number'], &@)", "max_by(%s[?type(@) == 'number'], &@)", "contains(%s, `2`)", "to_array(%s)[*].not_null(@, `9`)", "not_null(%s)[1:][*]",
	"max_by(%s, &@)", "min_by(%s, &@)", "sort_by(%s, &@)", "max_by(%s, &not_null(@, `-1`))", "min_by(%s, &not_null(@, `99`))", "sort_by(%s, &not_null(@, `1`))", "sort(%s)", "max(%s)", "sum(%s)", "avg(%s)", "join(',', %s)"}

type gridCell struct{ prod, use string }

func (g gridCell) expr() string { return strings.Replace(g.use, "%s", g.prod, -1) }

func gridCells() []gridCell {
	var out []gridCell
	for _, pair := range []struct{ src, use []string }{{gridObjSrc, gridObjUse}, {gridNumSrc, gridNumUse}} {
		for _, s := range pair.src {
			for _, p := range gridPass {
				prod := strings.Replace(p, "%s", s, -1)
				for _, u := range pair.use {
					out = append(out, gridCell{prod, u})
				}
			}
		}
	}
	return out
}

func gridExprs() []string {
	var out []string
	for _, g := range gridCells() {
		out = append(out, g.expr())
	}
	return out
}

func init() {
	// the random tests of C06, C12 and C13 draw from these pools too
	g := gridExprs()
	for i, e := range g {
		if i%7 == 0 {
			c06Templates = append(c06Templates, e)
		}
		if i%11 == 0 && !strings.Contains(e, "people") && !strings.Contains(e, "lists") {
			c12LiteralExprs = append(c12LiteralExprs, e)
		}
	}
}

// TestProducerConsumerGrid runs the whole grid under the property named by VERIF_PROP.
func TestProducerConsumerGrid(t *testing.T) {
	prop := envStr("VERIF_PROP", "C06")
	kind := map[string]string{"C06": "nomutate", "C16": "jsondata", "C15": "pipe"}[prop]
	if kind == "" {
		kind = "diff"
	}
	shard, nshards := envInt("VERIF_SHARD", 0), envInt("VERIF_NSHARDS", 1)
	n := 0
	for i, g := range gridCells() {
		if i%nshards != shard {
			continue
		}
		for _, d := range []string{gridDoc, `{"people":[],"nums":[],"lists":[[],[],[],[]],"o1":{"k":[]}}`} {
			if kind == "pipe" {
				// the pipe law with the producer as first and the consumer as second step
				run(t, Case{Property: prop, Kind: kind, Expr: g.prod, Doc: d, Extra: map[string]interface{}{"b": strings.Replace(g.use, "%s", "@", -1)}})
				// and referential transparency: the whole cell next to the document it was computed from
				// (a consumer that writes into what its producer handed through changes the neighbour)
				if i%3 == 0 {
					run(t, Case{Property: prop, Kind: "subst", Expr: g.expr(), Doc: d, Extra: map[string]interface{}{"ctx": []string{"[%s, @]", "{k: %s, j: @}", "[@, %s, @]"}[(i/3)%3]}})
					n++
				}
			} else {
				run(t, Case{Property: prop, Kind: kind, Expr: g.expr(), Doc: d, Extra: map[string]interface{}{"cell": "grid"}})
			}
			n++
		}
	}
	st := statsFor(prop)
	st.mu.Lock()
	st.Exhaustive[prop+".producer-consumer-grid"] = fmt.Sprintf("%d ways of obtaining an array (paths, literals, %d pass-through constructs and functions) x %d/%d array-building consumers, on a populated and an empty document (shard %d/%d: %d cases)",
		(len(gridObjSrc)+len(gridNumSrc))*len(gridPass), len(gridPass), len(gridObjUse), len(gridNumUse), shard, nshards, n)
	st.mu.Unlock()
}

// Nested compositions: by-expression functions inside the key expressions of by-expression
// functions, slices inside the right-hand sides of slices, filters after projections after
// filters, multi-selects in multi-selects - on a document with unsorted arrays at two levels.
const nestedDoc = `{"groups":[{"name":"g1","items":[{"n":3,"v":"c"},{"n":1,"v":"a"},{"n":2,"v":"b"}],"rows":[[1,2,3],[4,5,6]]},{"name":"g2","items":[{"n":9,"v":"z"},{"n":7,"v":"x"}],"rows":[[7,8],[9]]},{"name":"g3","items":[{"n":5,"v":"m"},{"n":4,"v":"k"},{"n":6,"v":"l"},{"n":0,"v":"j"}],"rows":[]},{"name":"g0","items":[{"n":8,"v":"y"}],"rows":[[0]]}],"rows":[[1,2,3],[4,5,6],[7,8,9],[10,11,12]],"missing":null}`

var nestedExprs = []string{
	"sort_by(groups, &sort_by(items, &n)[-1].n)[*].name", "sort_by(groups, &sort_by(items, &n)[0].n)[*].name", "sort_by(groups, &max_by(items, &n).n)[*].name", "max_by(groups, &sort_by(items, &v)[0].v).name",
	"min_by(groups, &min_by(items, &n).n).name", "map(&sort_by(items, &n)[*].n, groups)", "groups[*].sort_by(items, &n)[*].v", "sort_by(groups, &length(sort_by(items, &v)))[*].name",
	"sort_by(groups, &sum(map(&max_by(items, &n).n, [@, @])))[*].name", "groups[?max_by(items, &n).n > `5`].name", "sort_by(groups, &sort_by(items, &sort_by([@, @], &n)[0].n)[0].v)[*].name",
	"sort_by(groups, &sort_by(items, &v)[0].v)[*].items[0].n", "[sort_by(groups, &sort_by(items, &n)[0].n)[0].name, groups[0].items[0].n]", "map(&max_by(items, &n), groups)[*].v", "groups[*].items | [*][?n > `2`].v",
	"rows[0:][0:]", "rows[1:3][::-1]", "rows[::-1][1:]", "rows[:2][*][1:]", "rows[1:][?@[0] > `4`][0:1]", "groups[*].rows[0:][0:1]", "rows[0:] | [*][::2]", "rows[::2][::-1][0]", "map(&@[1:], rows[1:])", "rows[1:][*][?@ > `5`]",
	"groups[?items[?n > `5`]].name", "groups[*].items[?n > `2`].v", "groups[?items[?n > `2`][?v > 'b']].name", "groups[*].items[*].[n, v][]", "groups[*].{g: name, top: max_by(items, &n).v, all: items[*].n}", "groups[].items[].n", "groups[*].items[*].n[]",
	"groups[*].[name, items[*].[v, [n]]]", "[groups[0].items[*].n, [groups[1].items[*].n, [groups[2].items[*].n]]]", "{a: {b: {c: groups[*].name}}}.a.b.c", "groups[?!(items[?n > `5`] && name)].name", "groups[?!items[?n > `8`] || !!missing].name",
	"groups[*].items[*].v | [0] | [1:]", "(groups[*].items)[*][0].n", "groups[*].(items[*].(n))", "groups[*].items[*].n | [*][0]", "length(groups[?length(items[?n > `1`]) > `1`])", "groups[?length(items) > `1`].items[?n != `1`].v",
	"((groups)[0].items)[1].n", "((groups[0]).items[1]).n", "(((groups)))[0].name", "groups[0].items[1:][0].v", "groups[0].items[1:].v", "groups[*].items[0][1:]", "rows[0][1:][0]", "rows[1][0:2].abs(@)", "groups[1].rows[0][1:]",
	"groups[*].items[*].n | [*] | [0] | [1:] | length(@)", "groups | [*].items | [*][*].n | [0] | [0]", "groups[*].name | sort(@) | [0] | length(@) | [@, @] | [0]", "groups | missing | groups",
	"[!!(groups[0].name < `1`), !!(groups[0].items[0].n < `1`), !!(missing < missing)]", "groups[*].[!!(name < `1`), !(items[0].n >= `3`)]",
	// a pipe ends the projection on its left: the right-hand side sees the list, nulls dropped already
	"`[1,null,2]`[*] | [*].type(@)", "`[1,null,2]`[:] | [*].type(@)", "`[[1],null,[2]]`[] | [*].type(@)", "`[1,null]`[*] | [*].length(@)", "`[{\"a\":1},null]`[*] | [*].not_null(a, `0`)", "(`[1,null,2]`[*]) | ([*].type(@))", "`[1,null,2]`[?@ || !@] | [*].type(@)", "groups[*].missing | [*].type(@)", "[groups[0], missing][*] | [*].type(@)",
	// a call that is never evaluated is never an error: unknown names, wrong arities and types in dead branches
	"`1` || nosuch(@)", "missing && nosuch(@, @)", "`[]`[*].nosuch(@)", "groups[?`false`].nosuch(@)", "`1` || abs()", "missing && abs(`\"a\"`)", "[`1` || nosuch(@), groups[0].name]", "`[]`[?size(@) > `1`]", "not_null(`1` || nosuch(@))", "groups[0].name || lenght(@)",
	// one list at the head of several flattens: each builds its own result
	"[[rows[0], groups[0].name][], [rows[0], groups[1].name][]]", "groups[*].[`[0,0,0]`, name][]", "groups[*].{r: [`[0,0,0]`, name][]}", "map(&[`[1,2,3]`, @][], groups[*].name)", "[[rows[0], `1`][], [rows[0], `2`][]]",
	"groups[*].[`[0,0,0,0,0]`, name, name][]", "rows[*].[@, `0`][]", "[rows[*].[@, `0`][], rows]", "groups[*].[rows[0], name][] | [*][-1]", "[groups[*].[`[[1],[2],[3]]`, [name]][], `[[1],[2],[3]]`]",
}

// TestNestedCompositions runs them under the property named by VERIF_PROP.
func TestNestedCompositions(t *testing.T) {
	prop := envStr("VERIF_PROP", "C02")
	kind := map[string]string{"C06": "nomutate", "C16": "jsondata", "C12": "concurrent"}[prop]
	if kind == "" {
		kind = "diff"
	}
	n := 0
	for _, e := range nestedExprs {
		for _, ctx := range []string{"%s", "[%s, %s]", "%s | [@, @] | [0]"} {
			expr := strings.Replace(ctx, "%s", e, -1)
			extra := map[string]interface{}{"cell": "nested"}
			if kind == "concurrent" {
				extra = map[string]interface{}{"mode": []string{"same-doc", "own-docs"}[n%2]}
				if n%3 == 0 {
					// many callers at once (anything that counts or shares per expression rather than per call)
					extra["goroutines"] = 96.0
					extra["iters"] = 3.0
				}
			}
			run(t, Case{Property: prop, Kind: kind, Expr: expr, Doc: nestedDoc, Extra: extra})
			n++
		}
	}
	if kind == "concurrent" {
		// searches long enough for a hundred of them to be in flight at once (several scheduler
		// quanta each): nested by-expression functions over 600 groups
		var sb strings.Builder
		sb.WriteString(`{"groups":[`)
		for i := 0; i < 600; i++ {
			if i > 0 {
				sb.WriteByte(',')
			}
			fmt.Fprintf(&sb, `{"name":"g%03d","items":[{"n":%d,"v":"c"},{"n":%d,"v":"a"},{"n":%d,"v":"b"},{"n":%d,"v":"d"}]}`, (i*389)%600, (i*7)%13, (i*11)%17, (i*5)%7, i%3)
		}
		sb.WriteString(`]}`)
		for _, e := range []string{"sort_by(groups, &sort_by(items, &n)[-1].n)[0].name", "sort_by(groups, &sum(map(&max_by(items, &n).n, [@, @])))[-1].name", "max_by(groups, &length(sort_by(items, &v)[?n > `1`])).name", "length(groups[?max_by(items, &n).n > `5`])"} {
			run(t, Case{Property: prop, Kind: kind, Expr: e, Doc: sb.String(), Extra: map[string]interface{}{"mode": "same-doc", "goroutines": 96.0, "iters": 2.0}})
			n++
		}
	}
	st := statsFor(prop)
	st.mu.Lock()
	st.Exhaustive[prop+".nested-compositions"] = fmt.Sprintf("%d expressions that nest a construct inside the same or a sibling construct two to four levels deep (by-expression keys that sort, slices of slices, filters of filters, multi-selects of multi-selects, parenthesised left operands, pipes of pipes) x 3 contexts: %d cases", len(nestedExprs), n)
	st.mu.Unlock()
}

// TestEqualityUniverse: every ordered pair of the value universe wherever the library
// decides equality outside a bare comparator: contains(), filter conditions over arrays,
// comparison of nested values (the helper behind == is shared by all of them).
func TestEqualityUniverse(t *testing.T) {
	prop := envStr("VERIF_PROP", "C09")
	tmpls := []string{"contains(`[X]`, `Y`)", "contains(`[1,X,\"s\"]`, `Y`)", "`[X,Y]`[?@ == `Y`]", "length(`[X,Y,X]`[?@ != `Y`])", "[`X` == `Y`, `Y` != `X`]", "`[[X],[Y]]`[?@[0] == `Y`][]", "`[{\"m\":X},{\"m\":Y}]`[?m == `Y`] | length(@)", "`[X]` == `[Y]`", "`{\"k\":X}` == `{\"k\":Y}`", "contains(`[[X]]`, `[Y]`)"}
	shard, nshards := envInt("VERIF_SHARD", 0), envInt("VERIF_NSHARDS", 1)
	n, k := 0, 0
	for _, x := range universeC07 {
		for _, y := range universeC07 {
			for _, tm := range tmpls {
				k++
				if k%nshards != shard {
					continue
				}
				e := strings.Replace(strings.Replace(tm, "X", strings.Replace(x, "`", "\\`", -1), -1), "Y", strings.Replace(y, "`", "\\`", -1), -1)
				run(t, Case{Property: prop, Kind: "diff", Expr: e, Doc: "null", Extra: map[string]interface{}{"cell": "equality"}})
				n++
			}
		}
	}
	st := statsFor(prop)
	st.mu.Lock()
	st.Exhaustive[prop+".equality-universe"] = fmt.Sprintf("%d^2 ordered pairs of universe values x %d places where equality is decided (contains, filter conditions, nested values) (shard %d/%d: %d cases)", len(universeC07), len(tmpls), shard, nshards, n)
	st.mu.Unlock()
}

// TestC01NullMultiSelect: a multi-select applied to a null current node is null as a whole,
// whatever its members are (literals and raw strings do not look at the current node) and
// whatever is applied to it afterwards; exhaustive over small forms.
func TestC01NullMultiSelect(t *testing.T) {
	prop := envStr("VERIF_PROP", "C01")
	ms := []string{"[`7`, a]", "[a, 'raw']", "{x: `1`}", "[`1`]", "[@]", "{a: @}", "[`[1,2]`, `{}`]", "{x: 'r', y: a}", "[[`1`]]", "[{x: `1`}]", "['a', 'b', 'c']"}
	suffix := []string{"", "[0]", "[-1]", "[1]", ".x", "[*]", "[]", "[0:1]", " | [0]", "[?@]", "[0][0]", ".*", " || `2`", " && `2`", " == `null`"}
	prefix := []string{"missing | ", "a.zz | ", "`null` | ", "missing.", "a[9].", "", "(missing) | ", "a.b.c.", "[missing][0] | ", "missing[*].", "not_null(missing) | "}
	n := 0
	for _, doc := range []string{"null", `{"a":1}`, `{"a":[1,2],"x":5}`} {
		for _, p := range prefix {
			for _, m := range ms {
				for _, s := range suffix {
					inner := p + m + s
					for _, ctx := range []string{"%s", "[a, (%s)]", "{x: %s}"} {
						run(t, Case{Property: prop, Kind: "diff", Expr: strings.Replace(ctx, "%s", inner, 1), Doc: doc, Extra: map[string]interface{}{"cell": "null-multiselect"}})
						n++
					}
				}
			}
		}
	}
	st := statsFor(prop)
	st.mu.Lock()
	st.Exhaustive[prop+".null-multiselect"] = fmt.Sprintf("11 ways to a null (or non-null) current node x 11 multi-selects x 15 continuations x 3 contexts x 3 documents: %d cases", n)
	st.mu.Unlock()
}

// TestC01KeywordIdentifiers: JMESPath has no reserved words. Names that are keywords elsewhere
// (or in later JMESPath proposals), JSON words, function names and number-like names are plain
// identifiers in every position an identifier can take.
func TestC01KeywordIdentifiers(t *testing.T) {
	prop := envStr("VERIF_PROP", "C01")
	words := []string{"in", "let", "null", "true", "false", "and", "or", "not", "if", "then", "else", "as", "is", "def", "fn", "var", "length", "sort_by", "e", "E1", "inf", "nan", "NaN", "Infinity", "_", "__", "x1", "div", "mod", "where", "select", "from"}
	tmpls := []string{"%s", "a.%s", "%s.a", "{%s: a}", "{%s: %s}", "a.{%s: b}", "[%s]", "[%s, a]", "%s[0]", "l[?%s]", "l[?%s == `1`]", "%s || a", "a && %s", "!%s", "%s | a", "a | %s", "length(%s)", "max_by(l, &%s)", "*.%s", "l[*].%s", "@.%s", "(%s)", "%s == %s",
		"{%s: %s}.%s", "l[].%s", "l[0].%s", "sort_by(l, &%s)[0].%s", "not_null(%s, a)", "zz.%s", "zz.{%s: a}", "[%s][0]", "a.%s.%s"}
	var members, inner []string
	for i, w := range words {
		members = append(members, fmt.Sprintf("%q:%d", w, i+1))
		inner = append(inner, fmt.Sprintf("%q:%d", w, 100-i))
	}
	in := "{" + strings.Join(inner, ",") + `,"b":0}`
	doc := "{" + strings.Join(members, ",") + `,"a":` + in + `,"l":[` + in + "," + "{" + strings.Join(members, ",") + "}" + `]}`
	n := 0
	for _, w := range words {
		for _, tm := range tmpls {
			run(t, Case{Property: prop, Kind: "diff", Expr: strings.Replace(tm, "%s", w, -1), Doc: doc, Extra: map[string]interface{}{"cell": "keyword-identifier"}})
			n++
		}
	}
	st := statsFor(prop)
	st.mu.Lock()
	st.Exhaustive[prop+".keyword-identifiers"] = fmt.Sprintf("%d keyword-like names x %d identifier positions: %d cases", len(words), len(tmpls), n)
	st.mu.Unlock()
}

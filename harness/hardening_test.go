package harness

// Checks against limits and guards (depth limits, length limits, sanity passes over results):
// a guard that is wrong exactly at its threshold, or that walks (and "repairs") a result that
// is still the caller's document, shows only for inputs at that threshold. Every sweep here
// walks a size densely (sweepSizes: every value to 72, then the neighbourhoods of the larger
// powers of two and round numbers) instead of sampling it.

import (
	"fmt"
	"math"
	"reflect"
	"runtime"
	"strings"
	"sync"
	"testing"

	jp "github.com/jmespath/go-jmespath"

	"verifharness/ref"
)

func init() { predicates["nonfinite-doc"] = predNonFiniteDoc }

func deepSizes() []int {
	out := sweepSizes()
	for _, c := range []int{2047, 2048, 2049, 4095, 4096, 4097, 9999, 10000, 10001} {
		out = append(out, c)
	}
	return out
}

// TestDepthSweep (VERIF_PROP = C05 or C17): every nesting construct of the grammar, nested n
// deep for every n of the sweep, complete and cut off at the deepest point (with and without
// an operand), judged by the contract predicate (C17) or the robustness predicate (C05).
func TestDepthSweep(t *testing.T) {
	prop := envStr("VERIF_PROP", "C17")
	kind := map[string]string{"C17": "contract", "C05": "robust"}[prop]
	if kind == "" {
		t.Fatalf("HARNESS-ERROR: TestDepthSweep under %s", prop)
	}
	type fam struct{ open, leaf, close string }
	fams := []fam{{"(", "a", ")"}, {"[", "a", "]"}, {"!", "a", ""}, {"[?", "a", "]"}, {"{a:", "a", "}"}, {"@.[", "a", "]"}, {"abs(", "a", ")"}, {"a[?", "a", "]"}, {"a.", "a", ""}, {"a||", "a", ""},
		{"&", "a", ""}, {"a|", "a", ""}, {"[a,", "a", "]"}, {"a==", "a", ""}, {"*.", "a", ""}, {"a[", "0", "]"}, {"f(a,", "a", ")"}, {"(!", "a", ")"}}
	n := 0
	for _, d := range deepSizes() {
		if d == 0 {
			continue
		}
		for _, f := range fams {
			forms := []string{
				strings.Repeat(f.open, d),                                   // cut off right after the last opener
				strings.Repeat(f.open, d) + f.leaf,                          // the operand, no closer
				strings.Repeat(f.open, d) + f.leaf + strings.Repeat(f.close, d), // complete
			}
			if f.close != "" && d > 1 {
				forms = append(forms, strings.Repeat(f.open, d)+f.leaf+strings.Repeat(f.close, d-1), strings.Repeat(f.open, d)+f.leaf+strings.Repeat(f.close, d+1))
			}
			for _, e := range forms {
				c := withExpr(Case{Property: prop, Kind: kind, Doc: `{"a":[[1,2],{"a":true}]}`, Extra: map[string]interface{}{"cell": "depth"}}, e)
				run(t, c)
				n++
			}
		}
	}
	st := statsFor(prop)
	st.mu.Lock()
	st.Exhaustive[prop+".depth-sweep"] = fmt.Sprintf("%d nesting constructs x depths 1..72 and around 96..10000, complete, unclosed and over-closed: %d texts", len(fams), n)
	st.mu.Unlock()
}

// deepDocText: a document nested d containers deep along one spine (arrays, objects and mixed),
// with scalars beside the spine at every level.
func deepDocText(d int, kind int) string {
	v := `"leaf"`
	for i := 0; i < d; i++ {
		switch (i + kind) % 3 {
		case 0:
			v = "[" + v + "]"
		case 1:
			v = `{"k":` + v + `,"n":1}`
		default:
			v = `[0,` + v + `,"x"]`
		}
	}
	return `{"a":` + v + `,"b":[1,2],"c":"s"}`
}

var deepDocExprs = []string{"@", "a", "[a, a]", "not_null(a)", "to_array(a)", "{k: a}", "values(@)", "a || b", "merge(@, @)", "[a][0]", "a | @", "[@][*]", "*", "[b, a][1]", "map(&@, [a])", "a == a", "to_string(a) | length(@)",
	"type(a)", "length(a)", "reverse([a, b])", "sort_by([@], &c)", "max_by([@, @], &c).a", "b[?@ > `1`] || a", "abs(a)", "keys(a)", "a[0] || a.k", "[a[0], a.k]", "a[*]", "a.*", "a[]", "a[::-1]", "a[?@]"}

// TestDeepDocs (VERIF_PROP = C01, C06 or C16): results that are, or contain, deeply nested
// parts of the document, for every depth of the sweep.
func TestDeepDocs(t *testing.T) {
	prop := envStr("VERIF_PROP", "C06")
	kind := map[string]string{"C06": "nomutate", "C16": "jsondata"}[prop]
	if kind == "" {
		kind = "diff"
	}
	shard, shards := envInt("VERIF_SHARD", 0), envInt("VERIF_NSHARDS", 1)
	n := 0
	for i, d := range deepSizes() {
		if d > 2100 || i%shards != shard {
			continue // (beyond that the decoder of the test's own document text is the limit: encoding/json stops at 10000)
		}
		for k := 0; k < 3; k++ {
			doc := deepDocText(d, k)
			for _, e := range deepDocExprs {
				run(t, Case{Property: prop, Kind: kind, Expr: e, Doc: doc, Extra: map[string]interface{}{"cell": "deepdoc"}})
				n++
			}
		}
	}
	st := statsFor(prop)
	st.mu.Lock()
	st.Exhaustive[prop+".deep-docs"] = fmt.Sprintf("%d expressions whose result is or contains part of the document x documents nested 0..72 and around 96..2049 deep x 3 container mixes (this shard: %d cases)", len(deepDocExprs), n)
	st.mu.Unlock()
}

// ---------------------------------------------------------------------------
// Values that contain the same object or array more than once (a multi-select naming one
// field twice produces them; they are DAGs, not cycles, and plain JSON data once written out).

var sharedSubDocs = []string{`{"a":{"b":[1,2],"c":"x"},"s":"str","l":[3,1,2],"o":{"n":1}}`, `{"a":[[1],[2]],"s":"","l":[],"o":{}}`, `{"a":{"b":{"b":{"b":[0]}}},"s":"é","l":[{"n":2},{"n":1}],"o":{"n":null}}`}

var sharedSubExprs = []string{"to_string([@, @])", "to_string({x: a, y: a})", "to_string([a, a.b, a])", "to_string([[a, a], [a, a]])", "to_string({x: {y: a}, z: {y: a}})", "to_string([l, l])", "to_string([o, o, o])",
	"length([@, @])", "to_array([a, a])", "merge({x: a}, {y: a})", "values({x: a, y: a})", "keys({x: a, y: a})", "reverse([a, a, l])", "map(&to_string(@), [a, a])", "map(&@, [a, a])", "not_null([a, a])", "join('', [s, s])",
	"sort_by([o, o], &n)", "max_by([o, o], &n)", "sort([l, l][])", "[a, a] == [a, a]", "[a, a][0] == a", "contains([a, a], a)", "type([a, a])", "to_string(map(&[@, @], l))", "to_string(l[*].[@, @])", "[a, a][]", "[a, a][*].b", "{x: a, y: a}.*",
	"to_string([a, a]) == to_string([a, a])", "to_string(@) | length(@)", "to_string([s, s])", "to_string([`1`, `1`])", "to_string([`[1]`, `[1]`])", "to_string([`{}`, `{}`, `[]`, `[]`])"}

// TestSharedSubvalues (VERIF_PROP = C09, C16 or C06).
func TestSharedSubvalues(t *testing.T) {
	prop := envStr("VERIF_PROP", "C09")
	kind := map[string]string{"C06": "nomutate", "C16": "jsondata"}[prop]
	if kind == "" {
		kind = "diff"
	}
	n := 0
	for _, d := range sharedSubDocs {
		for _, e := range sharedSubExprs {
			for _, ctx := range []string{"%s", "[%s, %s]", "@ | %s"} {
				run(t, Case{Property: prop, Kind: kind, Expr: strings.Replace(ctx, "%s", e, -1), Doc: d, Extra: map[string]interface{}{"cell": "shared-subvalue"}})
				n++
			}
		}
	}
	st := statsFor(prop)
	st.mu.Lock()
	st.Exhaustive[prop+".shared-subvalues"] = fmt.Sprintf("%d expressions over values that hold one object or array several times x %d documents x 3 contexts: %d cases", len(sharedSubExprs), len(sharedSubDocs), n)
	st.mu.Unlock()
}

// ---------------------------------------------------------------------------
// C12: documents built by a Go program may hold float64 values that JSON cannot (NaN, the
// infinities). The library promises nothing about what it computes from them - but the callers
// only read their document, so it is not written to, whatever it holds.

func goNonFiniteDoc() interface{} {
	nan, inf := math.NaN(), math.Inf(1)
	return map[string]interface{}{
		"a": []interface{}{1.0, nan, 2.0, []interface{}{-inf, "x"}},
		"b": map[string]interface{}{"x": inf, "y": []interface{}{-inf}, "z": 3.0},
		"c": "s", "n": 4.0,
		"l": []interface{}{map[string]interface{}{"v": nan, "k": 2.0}, map[string]interface{}{"v": 1.0, "k": 1.0}},
	}
}

// bits: a rendering under which NaN equals itself and -0 differs from 0.
func bits(v interface{}, depth int) string {
	if depth > 200 {
		return "<deep>"
	}
	switch t := v.(type) {
	case float64:
		return fmt.Sprintf("f%016x", math.Float64bits(t))
	case []interface{}:
		p := make([]string, len(t))
		for i, e := range t {
			p[i] = bits(e, depth+1)
		}
		return "[" + strings.Join(p, ",") + "]"
	case map[string]interface{}:
		ks := make([]string, 0, len(t))
		for k := range t {
			ks = append(ks, k)
		}
		sortStrings(ks)
		p := make([]string, len(ks))
		for i, k := range ks {
			p[i] = fmt.Sprintf("%q:%s", k, bits(t[k], depth+1))
		}
		return "{" + strings.Join(p, ",") + "}"
	case nil:
		return "null"
	}
	return fmt.Sprintf("%T:%v", v, v)
}

func sortStrings(a []string) {
	for i := 1; i < len(a); i++ {
		for j := i; j > 0 && a[j] < a[j-1]; j-- {
			a[j], a[j-1] = a[j-1], a[j]
		}
	}
}

var goNonFiniteExprs = []string{"@", "a", "b", "[a, b]", "a[*]", "b.*", "{k: a}", "not_null(a)", "to_array(b)", "a[?@ > `0`]", "n", "l[*].v", "l", "a[3]", "values(b)", "[@][0]", "a || b", "merge(b, b)", "map(&@, a)", "reverse(a)", "a[::-1]", "a[]", "l[?k > `1`]", "*"}

func predNonFiniteDoc(c Case) (r Result) {
	expr := c.expr()
	breadcrumb(c)
	doc := goNonFiniteDoc()
	before := bits(doc, 0)
	comp, err, pan := libCompile(expr)
	if err != nil || pan != nil {
		r.Discard = "does-not-compile"
		return
	}
	r.Nontrivial = true
	const G, iters = 8, 25
	var wg sync.WaitGroup
	start := make(chan struct{})
	stop := make(chan struct{})
	pans := make([]interface{}, G)
	for g := 0; g < G; g++ {
		wg.Add(1)
		go func(g int) {
			defer wg.Done()
			<-start
			for i := 0; i < iters; i++ {
				p := safely(func() {
					if g%2 == 0 {
						_, _ = comp.Search(doc)
					} else {
						_, _ = jp.Search(expr, doc)
					}
				})
				if p != nil {
					pans[g] = p
				}
			}
		}(g)
	}
	var rwg sync.WaitGroup
	rwg.Add(1)
	go func() {
		defer rwg.Done()
		for {
			select {
			case <-stop:
				return
			default:
				_ = deepRead(doc)
				runtime.Gosched()
			}
		}
	}()
	close(start)
	wg.Wait()
	close(stop)
	rwg.Wait()
	if after := bits(doc, 0); after != before {
		r.Violation = "concurrent searches wrote to a document (holding non-finite numbers) that the callers only read"
		r.Expected, r.Got = before, after
		return
	}
	_ = reflect.DeepEqual
	_ = ref.Canon
	return
}

// TestC12NonFiniteDocs: run under the race detector (a write that restores the same bits is
// still a write next to the concurrent reader).
func TestC12NonFiniteDocs(t *testing.T) {
	for _, e := range goNonFiniteExprs {
		for _, ctx := range []string{"%s", "[%s, %s]", "%s | @"} {
			run(t, withExpr(Case{Property: "C12", Kind: "nonfinite-doc"}, strings.Replace(ctx, "%s", e, -1)))
		}
	}
}

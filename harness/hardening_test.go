package harness

// Checks against limits and guards (depth limits, length limits, sanity passes over results):
// a guard that is wrong exactly at its threshold, or that walks (and "repairs") a result that
// is still the caller's document, shows only for inputs at that threshold. Every sweep here
// walks a size densely (sweepSizes: every value to 72, then the neighbourhoods of the larger
// powers of two and round numbers) instead of sampling it.

import (
	"encoding/json"
	"fmt"
	"math"
	"reflect"
	"runtime"
	"strings"
	"sync"
	"sync/atomic"
	"testing"

	jp "github.com/jmespath/go-jmespath"
	"pgregory.net/rapid"

	"verifharness/ref"
)

func init() { predicates["nonfinite-doc"] = predNonFiniteDoc }

func deepSizes() []int {
	out := sweepSizes()
	for _, c := range []int{2047, 2048, 2049, 4095, 4096, 4097, 9999, 10000, 10001} {
		out = append(out, c)
	}
	return out
}

// TestDepthSweep (VERIF_PROP = C05 or C17): every nesting construct of the grammar, nested n
// deep for every n of the sweep, complete and cut off at the deepest point (with and without
// an operand), judged by the contract predicate (C17) or the robustness predicate (C05).
func TestDepthSweep(t *testing.T) {
	prop := envStr("VERIF_PROP", "C17")
	kind := map[string]string{"C17": "contract", "C05": "robust"}[prop]
	if kind == "" {
		t.Fatalf("HARNESS-ERROR: TestDepthSweep under %s", prop)
	}
	type fam struct{ open, leaf, close string }
	fams := []fam{{"(", "a", ")"}, {"[", "a", "]"}, {"!", "a", ""}, {"[?", "a", "]"}, {"{a:", "a", "}"}, {"@.[", "a", "]"}, {"abs(", "a", ")"}, {"a[?", "a", "]"}, {"a.", "a", ""}, {"a||", "a", ""},
		{"&", "a", ""}, {"a|", "a", ""}, {"[a,", "a", "]"}, {"a==", "a", ""}, {"*.", "a", ""}, {"a[", "0", "]"}, {"f(a,", "a", ")"}, {"(!", "a", ")"}}
	n := 0
	for _, d := range deepSizes() {
		if d == 0 {
			continue
		}
		for _, f := range fams {
			forms := []string{
				strings.Repeat(f.open, d),                                       // cut off right after the last opener
				strings.Repeat(f.open, d) + f.leaf,                              // the operand, no closer
				strings.Repeat(f.open, d) + f.leaf + strings.Repeat(f.close, d), // complete
			}
			if f.close != "" && d > 1 {
				forms = append(forms, strings.Repeat(f.open, d)+f.leaf+strings.Repeat(f.close, d-1), strings.Repeat(f.open, d)+f.leaf+strings.Repeat(f.close, d+1))
			}
			for _, e := range forms {
				c := withExpr(Case{Property: prop, Kind: kind, Doc: `{"a":[[1,2],{"a":true}]}`, Extra: map[string]interface{}{"cell": "depth"}}, e)
				run(t, c)
				n++
			}
		}
	}
	st := statsFor(prop)
	st.mu.Lock()
	st.Exhaustive[prop+".depth-sweep"] = fmt.Sprintf("%d nesting constructs x depths 1..72 and around 96..10000, complete, unclosed and over-closed: %d texts", len(fams), n)
	st.mu.Unlock()
}

// deepDocText: a document nested d containers deep along one spine (arrays, objects and mixed),
// with scalars beside the spine at every level.
func deepDocText(d int, kind int) string {
	v := `"leaf"`
	for i := 0; i < d; i++ {
		switch (i + kind) % 3 {
		case 0:
			v = "[" + v + "]"
		case 1:
			v = `{"k":` + v + `,"n":1}`
		default:
			v = `[0,` + v + `,"x"]`
		}
	}
	return `{"a":` + v + `,"b":[1,2],"c":"s"}`
}

var deepDocExprs = []string{"@", "a", "[a, a]", "not_null(a)", "to_array(a)", "{k: a}", "values(@)", "a || b", "merge(@, @)", "[a][0]", "a | @", "[@][*]", "*", "[b, a][1]", "map(&@, [a])", "a == a", "to_string(a) | length(@)",
	"type(a)", "length(a)", "reverse([a, b])", "sort_by([@], &c)", "max_by([@, @], &c).a", "b[?@ > `1`] || a", "abs(a)", "keys(a)", "a[0] || a.k", "[a[0], a.k]", "a[*]", "a.*", "a[]", "a[::-1]", "a[?@]"}

// TestDeepDocs (VERIF_PROP = C01, C06 or C16): results that are, or contain, deeply nested
// parts of the document, for every depth of the sweep.
func TestDeepDocs(t *testing.T) {
	prop := envStr("VERIF_PROP", "C06")
	kind := map[string]string{"C06": "nomutate", "C16": "jsondata"}[prop]
	if kind == "" {
		kind = "diff"
	}
	shard, shards := envInt("VERIF_SHARD", 0), envInt("VERIF_NSHARDS", 1)
	n := 0
	for i, d := range deepSizes() {
		if d > 2100 || i%shards != shard {
			continue // (beyond that the decoder of the test's own document text is the limit: encoding/json stops at 10000)
		}
		for k := 0; k < 3; k++ {
			doc := deepDocText(d, k)
			for _, e := range deepDocExprs {
				run(t, Case{Property: prop, Kind: kind, Expr: e, Doc: doc, Extra: map[string]interface{}{"cell": "deepdoc"}})
				n++
			}
		}
	}
	st := statsFor(prop)
	st.mu.Lock()
	st.Exhaustive[prop+".deep-docs"] = fmt.Sprintf("%d expressions whose result is or contains part of the document x documents nested 0..72 and around 96..2049 deep x 3 container mixes (this shard: %d cases)", len(deepDocExprs), n)
	st.mu.Unlock()
}

// ---------------------------------------------------------------------------
// Values that contain the same object or array more than once (a multi-select naming one
// field twice produces them; they are DAGs, not cycles, and plain JSON data once written out).

var sharedSubDocs = []string{`{"a":{"b":[1,2],"c":"x"},"s":"str","l":[3,1,2],"o":{"n":1}}`, `{"a":[[1],[2]],"s":"","l":[],"o":{}}`, `{"a":{"b":{"b":{"b":[0]}}},"s":"é","l":[{"n":2},{"n":1}],"o":{"n":null}}`}

var sharedSubExprs = []string{"to_string([@, @])", "to_string({x: a, y: a})", "to_string([a, a.b, a])", "to_string([[a, a], [a, a]])", "to_string({x: {y: a}, z: {y: a}})", "to_string([l, l])", "to_string([o, o, o])",
	"length([@, @])", "to_array([a, a])", "merge({x: a}, {y: a})", "values({x: a, y: a})", "keys({x: a, y: a})", "reverse([a, a, l])", "map(&to_string(@), [a, a])", "map(&@, [a, a])", "not_null([a, a])", "join('', [s, s])",
	"sort_by([o, o], &n)", "max_by([o, o], &n)", "sort([l, l][])", "[a, a] == [a, a]", "[a, a][0] == a", "contains([a, a], a)", "type([a, a])", "to_string(map(&[@, @], l))", "to_string(l[*].[@, @])", "[a, a][]", "[a, a][*].b", "{x: a, y: a}.*",
	"to_string([a, a]) == to_string([a, a])", "to_string(@) | length(@)", "to_string([s, s])", "to_string([`1`, `1`])", "to_string([`[1]`, `[1]`])", "to_string([`{}`, `{}`, `[]`, `[]`])"}

// TestSharedSubvalues (VERIF_PROP = C09, C16 or C06).
func TestSharedSubvalues(t *testing.T) {
	prop := envStr("VERIF_PROP", "C09")
	kind := map[string]string{"C06": "nomutate", "C16": "jsondata"}[prop]
	if kind == "" {
		kind = "diff"
	}
	n := 0
	for _, d := range sharedSubDocs {
		for _, e := range sharedSubExprs {
			for _, ctx := range []string{"%s", "[%s, %s]", "@ | %s"} {
				run(t, Case{Property: prop, Kind: kind, Expr: strings.Replace(ctx, "%s", e, -1), Doc: d, Extra: map[string]interface{}{"cell": "shared-subvalue"}})
				n++
			}
		}
	}
	st := statsFor(prop)
	st.mu.Lock()
	st.Exhaustive[prop+".shared-subvalues"] = fmt.Sprintf("%d expressions over values that hold one object or array several times x %d documents x 3 contexts: %d cases", len(sharedSubExprs), len(sharedSubDocs), n)
	st.mu.Unlock()
}

// ---------------------------------------------------------------------------
// C12: documents built by a Go program may hold float64 values that JSON cannot (NaN, the
// infinities). The library promises nothing about what it computes from them - but the callers
// only read their document, so it is not written to, whatever it holds.

func goNonFiniteDoc() interface{} {
	nan, inf := math.NaN(), math.Inf(1)
	return map[string]interface{}{
		"a": []interface{}{1.0, nan, 2.0, []interface{}{-inf, "x"}},
		"b": map[string]interface{}{"x": inf, "y": []interface{}{-inf}, "z": 3.0},
		"c": "s", "n": 4.0,
		"l": []interface{}{map[string]interface{}{"v": nan, "k": 2.0}, map[string]interface{}{"v": 1.0, "k": 1.0}},
	}
}

// bits: a rendering under which NaN equals itself and -0 differs from 0.
func bits(v interface{}, depth int) string {
	if depth > 200 {
		return "<deep>"
	}
	switch t := v.(type) {
	case float64:
		return fmt.Sprintf("f%016x", math.Float64bits(t))
	case []interface{}:
		p := make([]string, len(t))
		for i, e := range t {
			p[i] = bits(e, depth+1)
		}
		return "[" + strings.Join(p, ",") + "]"
	case map[string]interface{}:
		ks := make([]string, 0, len(t))
		for k := range t {
			ks = append(ks, k)
		}
		sortStrings(ks)
		p := make([]string, len(ks))
		for i, k := range ks {
			p[i] = fmt.Sprintf("%q:%s", k, bits(t[k], depth+1))
		}
		return "{" + strings.Join(p, ",") + "}"
	case nil:
		return "null"
	}
	return fmt.Sprintf("%T:%v", v, v)
}

func sortStrings(a []string) {
	for i := 1; i < len(a); i++ {
		for j := i; j > 0 && a[j] < a[j-1]; j-- {
			a[j], a[j-1] = a[j-1], a[j]
		}
	}
}

var goNonFiniteExprs = []string{"@", "a", "b", "[a, b]", "a[*]", "b.*", "{k: a}", "not_null(a)", "to_array(b)", "a[?@ > `0`]", "n", "l[*].v", "l", "a[3]", "values(b)", "[@][0]", "a || b", "merge(b, b)", "map(&@, a)", "reverse(a)", "a[::-1]", "a[]", "l[?k > `1`]", "*"}

func predNonFiniteDoc(c Case) (r Result) {
	expr := c.expr()
	breadcrumb(c)
	doc := goNonFiniteDoc()
	before := bits(doc, 0)
	comp, err, pan := libCompile(expr)
	if err != nil || pan != nil {
		r.Discard = "does-not-compile"
		return
	}
	r.Nontrivial = true
	const G, iters = 8, 25
	var wg sync.WaitGroup
	start := make(chan struct{})
	stop := make(chan struct{})
	pans := make([]interface{}, G)
	for g := 0; g < G; g++ {
		wg.Add(1)
		go func(g int) {
			defer wg.Done()
			<-start
			for i := 0; i < iters; i++ {
				p := safely(func() {
					if g%2 == 0 {
						_, _ = comp.Search(doc)
					} else {
						_, _ = jp.Search(expr, doc)
					}
				})
				if p != nil {
					pans[g] = p
				}
			}
		}(g)
	}
	var rwg sync.WaitGroup
	rwg.Add(1)
	go func() {
		defer rwg.Done()
		for {
			select {
			case <-stop:
				return
			default:
				_ = deepRead(doc)
				runtime.Gosched()
			}
		}
	}()
	close(start)
	wg.Wait()
	close(stop)
	rwg.Wait()
	if after := bits(doc, 0); after != before {
		r.Violation = "concurrent searches wrote to a document (holding non-finite numbers) that the callers only read"
		r.Expected, r.Got = before, after
		return
	}
	_ = reflect.DeepEqual
	_ = ref.Canon
	return
}

// TestC12NonFiniteDocs: run under the race detector (a write that restores the same bits is
// still a write next to the concurrent reader).
func TestC12NonFiniteDocs(t *testing.T) {
	for _, e := range goNonFiniteExprs {
		for _, ctx := range []string{"%s", "[%s, %s]", "%s | @"} {
			run(t, withExpr(Case{Property: "C12", Kind: "nonfinite-doc"}, strings.Replace(ctx, "%s", e, -1)))
		}
	}
}

// ---------------------------------------------------------------------------
// Documents that encoding/json decodes into typed Go values other than structs and slices:
// maps with string-kind keys (also of a named string type), fixed-size arrays, json.Number,
// json.RawMessage, pointers to pointers, integer and float32 fields. What the library computes
// from them is not specified by any listed property; that it returns normally is (C05: "any
// JSON-decoded document ... never panic"; C18: no expression panics on struct data).

type exoColor string

type exoDoc struct {
	Colors map[exoColor]int
	StrMap map[string]string
	Lists  map[string][]int
	Arr    [3]int
	Num    json.Number
	Raw    json.RawMessage
	PP     **hwInner
	Any    interface{}
	U8     []byte
	F32    float32
	I      int
	U      uint8
	Nested map[exoColor]map[string]*hwInner
	Empty  map[exoColor]int
}

const exoText = `{"Colors":{"red":1,"blue":2},"StrMap":{"a":"b","c":""},"Lists":{"x":[3,1,2],"y":[]},"Arr":[1,2,3],"Num":12,"Raw":{"a":[1]},"PP":{"Name":"n","Tags":["t"]},"Any":{"a":[1,"x"]},"U8":"YWI=","F32":1.5,"I":3,"U":200,"Nested":{"red":{"k":{"Name":"m","Tags":[]}}},"Empty":{}}`

func exoDocs() []interface{} {
	var d exoDoc
	dec := json.NewDecoder(strings.NewReader(exoText))
	dec.UseNumber()
	if err := dec.Decode(&d); err != nil {
		panic("HARNESS-ERROR: " + err.Error())
	}
	var m map[exoColor]int
	_ = json.Unmarshal([]byte(`{"red":1,"blue":2}`), &m)
	var sm map[string]string
	_ = json.Unmarshal([]byte(`{"a":"b"}`), &sm)
	var arr [3]int
	_ = json.Unmarshal([]byte(`[1,2,3]`), &arr)
	var num interface{}
	dn := json.NewDecoder(strings.NewReader(`{"a":1.5,"l":[1,2e3,-0],"big":123456789012345678901234567890}`))
	dn.UseNumber()
	_ = dn.Decode(&num)
	var ml map[string][]*hwInner
	_ = json.Unmarshal([]byte(`{"x":[{"Name":"a"},null],"y":[]}`), &ml)
	// (appended: the corpus refers to the documents above by index)
	var nilInner *hwInner
	chains := exoChains{Owner: &nilInner, Recs: []**hwInner{&nilInner, &nilInner}, Deep: nil}
	named := map[string]interface{}{"l": exoList{3.0, 1.0, 2.0}, "m": exoMap{"a": 1.0, "b": exoList{"x"}}, "s": exoStrings{"b", "a"}, "n": []interface{}{exoList{1.0}, exoList{}}}
	return []interface{}{d, &d, m, sm, arr, &arr, num, ml, json.Number("7"), json.RawMessage(`[1]`), []map[exoColor]int{m, nil}, named, exoList{exoMap{"k": 2.0}, exoMap{"k": 1.0}},
		// pointers to nil pointers (a lookup that "allocates on the way", as decoders do, would write here)
		chains, &chains, &nilInner,
		// two distinct types with one printed name (harness.exoT): anything keyed by the name confuses them
		exoLocalA(), exoLocalB(), exoLocalA(),
		// a member that is still undecoded JSON (a decoder told to leave it alone)
		map[string]interface{}{"kind": "x", "payload": json.RawMessage(`{"id":1,"l":[1,2]}`), "n": json.Number("3")},
		map[string]json.RawMessage{"payload": json.RawMessage(`{"id":1}`)}}
}

type exoChains struct {
	Owner **hwInner
	Recs  []**hwInner
	Deep  ***hwInner
}

func exoLocalA() interface{} {
	type exoT struct {
		A int
		B string
		C []string
	}
	return exoT{A: 1, B: "b", C: []string{"c"}}
}

func exoLocalB() interface{} {
	type exoT struct {
		C       []string
		X, Y, Z float64
		B       string
	}
	return &exoT{C: []string{"c2"}, B: "b2"}
}

// named container types, as document libraries define them (bson.A, bson.M, gin.H, ...)
type exoList []interface{}
type exoMap map[string]interface{}
type exoStrings []string

var exoExprs = []string{"payload.id", "[kind, payload.id]", "payload", "payload.l[0]", "keys(payload)", "n", "abs(n)", "payload || kind", "Owner.Name", "Owner", "Recs[*].Name", "Recs[0].Name", "Recs[0]", "Deep.Name", "Name", "Tags[0]", "[Owner.Name, Recs[1].Tags]", "Owner.Name || Recs[0].Name", "b", "c", "c[0]", "[a, b, c]", "x", "z", "length(l)", "reverse(l)", "sort_by(l, &@)", "max_by(l, &@)", "min_by(@, &k)", "sort_by(@, &k)", "map(&@, l)", "contains(l, `1`)", "not_null(l)", "to_array(l)", "to_array(m)", "sort(l)", "sort(s)", "join(',', s)", "merge(m, m)", "keys(m)", "values(m)", "m.b", "m.b[0]", "l[0]", "l[1:]", "l[*]", "l[]", "n[]", "n[*][0]", "l[?@ > `1`]", "m.*", "length(m)", "reverse(s)", "max(l)", "sum(l)", "avg(l)", "to_string(l)", "to_string(m)", "type(l)", "type(m)", "l == l", "[l, m]", "{a: l}", "l | [0]", "abs(l[0])", "reverse(@)", "length(n)", "map(&length(@), n)",
	"Colors.red", "colors.red", "red", "blue", "a", "x", "x[0]", "x[0].Name", "StrMap.a", "Lists.x", "Lists.x[0]", "sort(Lists.x)", "Arr[0]", "Arr[*]", "Arr[1:]", "Arr[]", "length(Arr)", "Num", "abs(Num)", "Raw.a", "PP.Name", "PP.Tags[0]", "Any.a", "Any.a[1]",
	"keys(Colors)", "values(StrMap)", "*", "Colors.*", "Nested.red.k.Name", "Nested.*.*.Name", "Nested.red", "Empty.red", "keys(Empty)", "U8[0]", "length(U8)", "abs(F32)", "abs(I)", "abs(U)", "I > `1`", "I == `3`", "to_string(@)", "to_string(Colors)", "length(@)", "keys(@)", "values(@)",
	"[0]", "[*]", "[]", "[1:]", "[-1]", "[::-1]", "@ == @", "sort(Arr)", "sum(Arr)", "avg(Arr)", "max(Arr)", "max(U8)", "merge(StrMap, Colors)", "merge(@, @)", "type(Colors)", "type(Arr)", "type(Num)", "type(@)", "map(&@, Arr)", "reverse(Arr)", "reverse(@)", "join(',', Arr)", "contains(Arr, `1`)", "contains(@, `1`)",
	"not_null(Colors)", "Colors || Arr", "!Colors", "!Empty", "!@", "Arr[?@ > `1`]", "[?@ > `1`]", "[?red]", "[*].red", "to_array(Colors)", "to_array(@)", "to_number(Num)", "to_number(@)", "a", "l", "l[0]", "sum(l)", "big", "abs(big)", "a > `1`", "sort_by(@, &@)", "max_by(@, &@)", "sort_by(Arr, &@)",
	"{c: Colors, a: Arr}", "[Colors, Arr, Num]", "Colors | keys(@)", "Colors.red | abs(@)", "length(Colors)", "length(StrMap)", "ends_with(Num, '2')", "starts_with(@, '7')", "floor(@)", "ceil(F32)"}

func init() { predicates["exotic-doc"] = predExoticDoc }

func predExoticDoc(c Case) (r Result) {
	expr := c.expr()
	idx := 0
	if v, ok := c.Extra["doc"].(float64); ok {
		idx = int(v)
	}
	docs := exoDocs()
	if idx < 0 || idx >= len(docs) {
		r.Discard = "HARNESS:bad-doc-index"
		return
	}
	r.Nontrivial = true
	if p := safely(func() { _, _ = jp.Search(expr, docs[idx]) }); p != nil {
		r.Violation = fmt.Sprintf("Search panicked on a JSON-decoded document of type %T", docs[idx])
		r.Got = fmt.Sprint(p)
		return
	}
	unchanged := func() bool {
		// the document is read-only whatever Go types it is made of: compare with one built afresh
		if !reflect.DeepEqual(docs[idx], exoDocs()[idx]) {
			r.Violation = fmt.Sprintf("Search modified a document of type %T", docs[idx])
			r.Expected, r.Got = fmt.Sprintf("%#v", exoDocs()[idx]), fmt.Sprintf("%#v", docs[idx])
			return false
		}
		return true
	}
	if !unchanged() {
		return
	}
	comp, err, pan := libCompile(expr)
	if pan != nil || err != nil {
		return
	}
	for i := 0; i < 2; i++ {
		if p := safely(func() { _, _ = comp.Search(docs[idx]) }); p != nil {
			r.Violation = fmt.Sprintf("a compiled Search panicked on a JSON-decoded document of type %T", docs[idx])
			r.Got = fmt.Sprint(p)
			return
		}
		if !unchanged() {
			return
		}
	}
	return
}

// TestExoticDocs (VERIF_PROP = C05 or C18).
func TestExoticDocs(t *testing.T) {
	prop := envStr("VERIF_PROP", "C05")
	n := 0
	for i := range exoDocs() {
		for _, e := range exoExprs {
			for _, ctx := range []string{"%s", "[%s, %s]", "@ | %s"} {
				run(t, withExpr(Case{Property: prop, Kind: "exotic-doc", Extra: map[string]interface{}{"doc": float64(i)}}, strings.Replace(ctx, "%s", e, -1)))
				n++
			}
		}
	}
	st := statsFor(prop)
	st.mu.Lock()
	st.Exhaustive[prop+".exotic-docs"] = fmt.Sprintf("%d expressions x 3 contexts x %d documents decoded by encoding/json into typed maps (string and named-string keys), fixed-size arrays, json.Number, RawMessage, pointer chains and numeric kinds: %d cases, no-panic only", len(exoExprs), len(exoDocs()), n)
	st.mu.Unlock()
}

// ---------------------------------------------------------------------------
// C13: the caller's document object may change between two searches (a program that updates
// its state and queries it again). The compiled expression is then searching another document
// that happens to live at the same address: anything the expression remembered about the
// object it saw before (its keys, its length, its sorted order) is history.

// editInPlace changes every container of v without replacing any of them: mode 0 renames the
// smallest key of every object (same number of members), mode 1 rotates the values among the
// keys, mode 2 reverses every array, mode 3 adds one to every number, mode 4 swaps the first
// two elements of every array and the values of the first two keys, mode 5 gives the last element of every array another type.
func editInPlace(v interface{}, mode int) {
	switch t := v.(type) {
	case map[string]interface{}:
		ks := ref.SortedKeys(t)
		for _, k := range ks {
			editInPlace(t[k], mode)
		}
		switch mode {
		case 0:
			if len(ks) > 0 {
				nk := ks[0] + "_"
				if _, dup := t[nk]; !dup {
					t[nk] = t[ks[0]]
					delete(t, ks[0])
				}
			}
		case 1:
			if len(ks) > 1 {
				first := t[ks[0]]
				for i := 0; i+1 < len(ks); i++ {
					t[ks[i]] = t[ks[i+1]]
				}
				t[ks[len(ks)-1]] = first
			}
		case 3:
			for _, k := range ks {
				if f, ok := t[k].(float64); ok {
					t[k] = f + 1
				}
			}
		case 4:
			if len(ks) > 1 {
				t[ks[0]], t[ks[1]] = t[ks[1]], t[ks[0]]
			}
		}
	case []interface{}:
		for _, e := range t {
			editInPlace(e, mode)
		}
		switch mode {
		case 2:
			for i, j := 0, len(t)-1; i < j; i, j = i+1, j-1 {
				t[i], t[j] = t[j], t[i]
			}
		case 3:
			for i := range t {
				if f, ok := t[i].(float64); ok {
					t[i] = f + 1
				}
			}
		case 4:
			if len(t) > 1 {
				t[0], t[1] = t[1], t[0]
			}
		case 5:
			// the last element gets a value of another type (a verdict about the array's element type is history)
			if len(t) > 1 {
				switch t[len(t)-1].(type) {
				case float64:
					t[len(t)-1] = "n/a"
				case string:
					t[len(t)-1] = 7.0
				}
			}
		}
	}
}

func init() { predicates["edited"] = predEdited }

func predEdited(c Case) (r Result) {
	expr := c.expr()
	n, st, perr := ref.ParseText(expr)
	if perr != nil || st != ref.LexOK {
		r.Discard = "generator:not-a-sentence"
		return
	}
	comp, cerr, pan := libCompile(expr)
	if cerr != nil || pan != nil {
		r.Violation = "Compile failed on a sentence"
		return
	}
	live := mustJSON(c.Doc)
	modes := []int{0, 1, 2, 3, 4, 0, 2, 5, 3}
	for step := -1; step < len(modes); step++ {
		if step >= 0 {
			editInPlace(live, modes[step])
		}
		snapshot := ref.DeepCopy(live)
		ev := &ref.Ev{}
		want, werr := ev.Eval(n, ref.DeepCopy(snapshot))
		var got, one libOut
		got.Panic = safely(func() { got.Val, got.Err = comp.Search(live) })
		one = libSearch(expr, ref.DeepCopy(snapshot))
		if got.Panic != nil {
			r.Violation = "Search panicked"
			r.Got = showOut(got)
			return
		}
		if !reflect.DeepEqual(live, snapshot) {
			r.Violation = "Search modified the document"
			return
		}
		r.Nontrivial = r.Nontrivial || step >= 0
		if ev.Ambiguous {
			continue
		}
		where := fmt.Sprintf("after %d in-place edits of the caller's document", step+1)
		if (got.Err != nil) != (werr != nil) || (werr == nil && !ref.Matches(got.Val, want)) {
			r.Violation = "a compiled expression searched the caller's document " + where + " and did not return the value of the document as it is now"
			r.Expected, r.Got = show(want), showOut(got)
			if werr != nil {
				r.Expected = "error: " + werr.Error()
			}
			return
		}
		if (one.Err != nil) != (got.Err != nil) || (got.Err == nil && !hasBag(want) && show(one.Val) != show(got.Val)) {
			r.Violation = "compiled and one-shot Search differ " + where
			r.Expected, r.Got = showOut(one), showOut(got)
			return
		}
	}
	return
}

var editedExprs = []string{"keys(@)", "values(@)", "*", "o1.*", "keys(o1)", "values(o2)", "@.*.*", "length(@)", "length(o1)", "to_string(@)", "merge(@, @)", "merge(o1, o2)", "sort(keys(@))", "people[*].*", "people[*].keys(@)", "map(&keys(@), people)",
	"o1.* | [0]", "keys(o1) | sort(@) | [0]", "people[0]", "people[-1].name", "nums[0]", "nums[-1]", "strs[1:]", "length(nums)", "length(people)", "lists[*][0]", "lists[]", "nested[0]", "[keys(o1), keys(o2)]", "{a: keys(o1), b: values(o1)}", "type(o1)", "contains(keys(o1), 'k')",
	"o1.k", "o1.j", "o2.z", "o1.k_", "not_null(o1.k_, o1.k)", "people[?age > `1`].name", "max_by(people, &age).name", "sort_by(people, &name)[0].age", "sum(nums)", "join(',', strs)", "reverse(strs)", "sort(strs)"}

// TestC13EditedDocs: one compiled expression, one document object edited in place seven times.
func TestC13EditedDocs(t *testing.T) {
	n := 0
	for _, d := range reprDocs {
		for _, e := range append(append([]string{}, editedExprs...), c06Templates...) {
			run(t, Case{Property: "C13", Kind: "edited", Expr: e, Doc: d, Extra: map[string]interface{}{"cell": "edited"}})
			n++
		}
	}
	st := statsFor("C13")
	st.mu.Lock()
	st.Exhaustive["C13.edited-docs"] = fmt.Sprintf("%d expressions x %d documents, each searched before and after 7 in-place edits (keys renamed, values rotated, arrays reversed, numbers changed): %d histories", len(editedExprs)+len(c06Templates), len(reprDocs), n)
	st.mu.Unlock()
}

// ---------------------------------------------------------------------------
// C14: "whitespace between tokens is insignificant" means the four characters of the grammar
// (space, TAB, LF, CR). Every other space-like code point outside quotes makes the text
// unlexable - it neither separates tokens nor belongs to an identifier - while the same text
// with a real space is a sentence with the same meaning as the tight form.

var notWhitespace = []rune{0x0b, 0x0c, 0x85, 0xa0, 0x1680, 0x180e, 0x2000, 0x2001, 0x2002, 0x2003, 0x2004, 0x2005, 0x2006, 0x2007, 0x2008, 0x2009, 0x200a, 0x200b, 0x200c, 0x200d, 0x2028, 0x2029, 0x202f, 0x205f, 0x2060, 0x3000, 0xfeff, 0x1c, 0x1d, 0x1e, 0x1f, 0x00ad}

func TestC14NotWhitespace(t *testing.T) {
	tmpls := []string{"a%s.b", "a.%sb", "%sa", "a%s", "[a,%sb]", "a%s||%sb", "'x'%s", "\"a\"%s", "`1`%s", "length(%sa)", "a[%s0]", "{a:%sb}", "a |%s b", "a[?%sb]", "!%sa", "a ==%s`1`", "a[0%s]", "a[1:%s2]", "@%s", "*%s.a", "&%sa", "a%s[0]"}
	n := 0
	for _, tm := range tmpls {
		// control: the real white space characters
		for _, ws := range []string{" ", "\t", "\n", "\r", " \r\n\t "} {
			run(t, Case{Property: "C14", Kind: "lang", Expr: strings.Replace(tm, "%s", ws, -1), Extra: map[string]interface{}{"cell": "whitespace"}})
			n++
		}
		for _, r := range notWhitespace {
			for _, form := range []string{string(r), " " + string(r), string(r) + " "} {
				run(t, Case{Property: "C14", Kind: "lang", Expr: strings.Replace(tm, "%s", form, -1), Extra: map[string]interface{}{"cell": "not-whitespace"}})
				n++
			}
		}
	}
	st := statsFor("C14")
	st.mu.Lock()
	st.Exhaustive["C14.not-whitespace"] = fmt.Sprintf("%d token boundaries x (5 real white space runs + %d other space-like or invisible code points x 3 placements): %d texts", len(tmpls), len(notWhitespace), n)
	st.mu.Unlock()
}

// TestC15NonFinitePipe: the pipe law where the first stage yields a number beyond the float64
// range (an overflowing sum or average) - bare, inside a list and inside an object.
func TestC15NonFinitePipe(t *testing.T) {
	doc := `{"p":[1e308,1e308],"n":[-1e308,-1e308],"m":[1e308,1e308,-1e308]}`
	as := []string{"sum(p)", "avg(p) | abs(@)", "sum(n)", "sum([sum(p), sum(n)])", "[sum(p)]", "{s: sum(p)}", "map(&sum(@), [p, n])", "[sum(p), `1`]", "sum(p) || `1`", "not_null(sum(n))", "max([sum(p), `1`])", "[sum(p), sum(n)] | sort(@)"}
	bs := []string{"type(@)", "@ > `0`", "@ < `0`", "@ == @", "[@, @] | length(@)", "to_string(@)", "not_null(@)", "abs(@)", "[@]", "{a: @}", "!@", "@ || `1`", "@ && `1`", "to_number(@)", "to_array(@)", "ceil(@)", "floor(@)", "max([@, `1`])", "sort([@, `1`])",
		"length(@)", "@[0]", "s", "@[0] | type(@)", "s | type(@)", "sum(@)", "type(@[0])", "@ == `null`", "@ != `null`", "[?@ > `0`]", "[0] > `0`", "s > `0`", "merge(@, @)", "reverse(@)", "join(',', @)", "to_string(@) | length(@)"}
	n := 0
	for _, a := range as {
		for _, b := range bs {
			run(t, Case{Property: "C15", Kind: "pipe", Expr: a, Doc: doc, Extra: map[string]interface{}{"b": b, "cell": "non-finite-pipe"}})
			n++
		}
	}
	st := statsFor("C15")
	st.mu.Lock()
	st.Exhaustive["C15.non-finite-pipe"] = fmt.Sprintf("%d first stages yielding +Inf, -Inf or NaN (bare, in lists, in objects) x %d second stages: %d pipes, library against library", len(as), len(bs), n)
	st.mu.Unlock()
}

// ---------------------------------------------------------------------------
// C13 ("... and equals the result of the one-shot Search function for the same expression and
// document") on root documents that are nil in every way Go offers: the two entry points are
// twins, and a conversion added to one of them shows only on such a root.

func nilRootDocs() []interface{} {
	var nilIface interface{}
	in := &hwInner{Name: "gold", Tags: []string{"t1", "t2"}}
	mixed := map[string]interface{}{"meta": *in, "ptr": in, "list": []hwInner{*in, {Name: "silver"}}, "plain": map[string]interface{}{"Name": "m"}, "deep": map[string]interface{}{"s": in}}
	full := &hwDoc{Ǆep: "dz", Ანი: "ge", Ünï: "u", Ωmega: []string{"o1", "o2"}, Name: "d", Items: []*hwInner{in, nil}, Inner: *in, Ptr: in, Strs: []string{"b", "a"}, Nums: []float64{2, 1}}
	return []interface{}{mixed, full, *full, (*hwDoc)(nil), (*hwInner)(nil), []*hwDoc{nil}, hwDoc{}, &hwDoc{}, nilIface, (*[]string)(nil), map[string]interface{}(nil), []interface{}(nil), (*map[string]interface{})(nil), []string(nil), (**hwInner)(nil)}
}

var nilRootExprs = []string{"meta.Name", "ptr.Name", "meta.Tags[0]", "list[0].Name", "list[*].Name", "ptr.Tags", "plain.Name", "deep.s.Name", "meta.Name || ptr.Name", "[meta.Name, ptr.Name]", "meta", "ptr.Tags[-1]", "meta.name", "ptr.name",
	"\"ünï\"", "\"ǆep\"", "\"ანი\"", "\"ωmega\"[0]", "\"Ünï\"", "Inner.Name", "Ptr.Name", "Items[0].Name", "[\"ünï\", Name]", "\"ωmega\"[*]", "Inner.\"Name\"", "\"Name\"", "@.\"ünï\"", "Items[*].\"Name\"",
	"@", "@ == `null`", "@ != `null`", "type(@)", "not_null(@, 'd')", "!@", "@ || 'x'", "@ && 'x'", "Name", "[@]", "{a: @}", "length(@)", "to_string(@)", "@.Name", "[0]", "*", "keys(@)", "to_array(@)", "@ | type(@)", "[@, @][0] == `null`",
	"[*]", "[]", "[?@]", "[0:1]", "@[0]", "[0].Name", "merge(@, @)", "values(@)", "contains(@, 'a')", "reverse(@)", "sort(@)", "map(&@, @)", "join(',', @)", "not_null(@)", "[@][?@]", "@ == @", "Items", "Items[0]", "Ptr.Name", "to_number(@)"}

func init() { predicates["nilroot"] = predNilRoot }

func predNilRoot(c Case) (r Result) {
	expr := c.expr()
	idx := 0
	if v, ok := c.Extra["doc"].(float64); ok {
		idx = int(v)
	}
	docs := nilRootDocs()
	if idx < 0 || idx >= len(docs) {
		r.Discard = "HARNESS:bad-doc-index"
		return
	}
	doc := docs[idx]
	comp, cerr, pan := libCompile(expr)
	if cerr != nil || pan != nil {
		r.Discard = "does-not-compile"
		return
	}
	r.Nontrivial = true
	render := func(o libOut) string {
		if o.Panic != nil {
			return "panic"
		}
		if o.Err != nil {
			return "error"
		}
		n, err := normalise(o.Val)
		if err != nil {
			return fmt.Sprintf("unserialisable %T", o.Val)
		}
		if unorderedExpr(expr) {
			return sortedCanon(n)
		}
		return ref.Canon(n)
	}
	one := libSearch(expr, doc)
	for i := 0; i < 2; i++ {
		var got libOut
		got.Panic = safely(func() { got.Val, got.Err = comp.Search(doc) })
		if got.Panic != nil || one.Panic != nil {
			r.Violation = fmt.Sprintf("Search panicked on a nil root document of type %T", doc)
			r.Got = showOut(got) + " / " + showOut(one)
			return
		}
		if render(got) != render(one) {
			r.Violation = fmt.Sprintf("compiled and one-shot Search differ on a nil root document of type %T", doc)
			r.Expected, r.Got = "one-shot: "+render(one), "compiled: "+render(got)
			return
		}
	}
	return
}

func TestC13NilRoots(t *testing.T) {
	n := 0
	for i := range nilRootDocs() {
		for _, e := range nilRootExprs {
			run(t, withExpr(Case{Property: "C13", Kind: "nilroot", Extra: map[string]interface{}{"doc": float64(i)}}, e))
			n++
		}
	}
	st := statsFor("C13")
	st.mu.Lock()
	st.Exhaustive["C13.nil-roots"] = fmt.Sprintf("%d expressions that look at the root x %d root documents that are nil, typed nil or zero: %d cases, compiled (twice) against one-shot", len(nilRootExprs), len(nilRootDocs()), n)
	st.mu.Unlock()
}

// ---------------------------------------------------------------------------
// Round 25 (performance work): fast paths are written for the inputs a benchmark uses.

// TestC15SortIdioms: "the last of the sorted" and its relatives, where ties exist: sort_by is
// stable, so its last element is the last of those with the largest key, which max_by (the
// first of them) is not. Both laws of C15, with and without redundant parentheses.
func TestC15SortIdioms(t *testing.T) {
	xs := []string{"sort_by(ranked, &r)", "sort_by(people, &age)", "sort_by(people, &name)", "sort(nums)", "sort(strs)", "sort_by(ranked, &v)", "reverse(sort_by(ranked, &r))", "sort_by(ranked[*], &r)", "ranked | sort_by(@, &r)", "sort_by(lists, &length(@))", "sort(sorted)", "sort_by(ranked, &to_string(r))"}
	bs := []string{"[-1]", "[0]", "[-1].v", "[1]", "[:1]", "[-2:]", "reverse(@)[0]", "length(@)", "[*].v | [-1]", "[-1] | v", "max_by(@, &r)", "min_by(@, &r)", "[?r == `2`] | [-1]", "[::-1][0]", "[-1:][0]"}
	n := 0
	for _, d := range reprDocs {
		for _, x := range xs {
			for _, b := range bs {
				run(t, Case{Property: "C15", Kind: "pipe", Expr: x, Doc: d, Extra: map[string]interface{}{"b": b, "cell": "sort-idiom"}})
				ctx := "%s | " + b
				if strings.HasPrefix(b, "[") && !strings.Contains(b, "|") && !strings.Contains(b, "@") {
					ctx = "%s" + b
				}
				run(t, Case{Property: "C15", Kind: "subst", Expr: x, Doc: d, Extra: map[string]interface{}{"ctx": ctx, "cell": "sort-idiom"}})
				n += 2
			}
		}
	}
	st := statsFor("C15")
	st.mu.Lock()
	st.Exhaustive["C15.sort-idioms"] = fmt.Sprintf("%d sorted sub-expressions (keys with ties) x %d continuations x %d documents, pipe law and literal substitution: %d cases", len(xs), len(bs), len(reprDocs), n)
	st.mu.Unlock()
}

// TestC11LateErrors: an error that arises only for a later element of an array, under a
// consumer that needs only the first elements (or none): every element is evaluated all the same.
func TestC11LateErrors(t *testing.T) {
	prop := envStr("VERIF_PROP", "C11")
	ps := []string{"l[?abs(n) > `0`]", "l[*].abs(n)", "map(&abs(n), l)", "l[].abs(n)", "sort_by(l, &abs(n))", "l[?n == `-1` || abs(n)]", "l[?abs(n) > `0`].id", "l[?id].abs(n)", "l[*].[abs(n)]", "l[*].{a: abs(n)}", "max_by(l, &abs(n))", "l[1:].abs(n)", "l[::-1].abs(n)",
		"l[?nosuch(n)]", "l[*].length(n)", "l[?n > `0`].abs(id)", "l[*].n | [?abs(@) > `0`]", "l[*].n[::0]", "m.*.abs(n)"}
	cs := []string{"%s | [0]", "(%s)[0]", "%s[0]", "%s | [0] | @", "%s[:1]", "%s | [-1]", "length(%s)", "not_null(%s)", "%s || `1`", "%s && `1`", "[%s][0]", "contains(%s, `1`)", "%s | [?@]", "%s == `[]`", "{a: %s}.a", "type(%s)", "%s[:0]", "%s | `1`", "%s | [0:0]", "to_array(%s)[0]", "reverse(%s)[0]", "%s[0] || `1`", "not_null(`1`, %s)"}
	docs := []string{`{"l":[{"n":-1,"id":"a"},{"n":"oops","id":"b"}],"m":{"x":{"n":1},"y":{"n":"oops"}}}`, `{"l":[{"n":1,"id":"a"},{"n":2,"id":"b"},{"n":[],"id":"c"}],"m":{"x":{"n":[]}}}`, `{"l":[{"n":1,"id":"a"},{"n":null,"id":"b"},{"n":3,"id":"c"}],"m":{}}`}
	n := 0
	for _, d := range docs {
		for _, p := range ps {
			for _, c := range cs {
				run(t, Case{Property: prop, Kind: "diff", Expr: strings.Replace(c, "%s", p, -1), Doc: d, Extra: map[string]interface{}{"cell": "late-error"}})
				n++
			}
		}
	}
	st := statsFor(prop)
	st.mu.Lock()
	st.Exhaustive[prop+".late-errors"] = fmt.Sprintf("%d producers whose error arises for a later element x %d consumers that need only the first (or no) element x %d documents: %d cases", len(ps), len(cs), len(docs), n)
	st.mu.Unlock()
}

// ---------------------------------------------------------------------------
// The value of a document does not depend on which of its parts share memory. Documents built
// by a program (not decoded) often hold views of one array (all, all[:2], all[1:]) and one map
// under several keys; every expression must give what it gives on a copy without any sharing.

func aliasedDocs() []interface{} {
	all := []interface{}{1.0, 2.0, 3.0}
	m := map[string]interface{}{"k": 1.0, "l": all[:1]}
	strs := []interface{}{"b", "a", "c", "a"}
	objs := []interface{}{map[string]interface{}{"n": 2.0}, map[string]interface{}{"n": 1.0}, map[string]interface{}{"n": 2.0}}
	return []interface{}{
		map[string]interface{}{"all": all, "top": all[:2], "tail": all[1:], "same": all, "none": all[:0], "m": m, "m2": m, "nested": []interface{}{all[:1], all[:2], all, all[1:]}, "strs": strs, "first": strs[:2], "objs": objs, "objs2": objs[:2], "o": objs[0], "o2": objs[0]},
		[]interface{}{all, all[:2], all, m, m, all[2:]},
	}
}

var aliasedExprs = []string{"top == all", "all == top", "top != all", "tail == all", "same == all", "none == all", "none == `[]`", "nested[0] == nested[1]", "nested[1] == top", "contains(nested, top)", "contains(nested, all)", "nested[?@ == `[1,2]`]", "nested[?@ == top]", "[top, all] | [0] == [1]", "m == m2",
	"sort_by(nested, &length(@))", "top < all", "!(top == all)", "top == all && `1`", "top == all || `0`", "nested[*] == nested[*]", "first == strs", "strs[:2] == first", "objs2 == objs", "objs[:2] == objs2", "o == o2", "objs[0] == objs[2]", "objs[?@ == o]", "[@[0] == @[1], @[0] == @[2], @[3] == @[4]]",
	"@[1] == @[0]", "contains(@, @[1])", "[top, all]", "merge(m, m2)", "reverse(top)", "sort(first)", "sort_by(objs2, &n)", "max_by(objs, &n)", "length(top)", "top[-1]", "nested[*][-1]", "nested[]", "to_string(nested)", "join('', first)", "[top, tail][]", "all[?@ > `1`] == tail", "all[1:] == tail", "all[:2] == top",
	"map(&@ == top, nested)", "nested[?length(@) == `2`] | [0] == top", "not_null(none, top)", "top || all", "none || all", "none && all", "!none", "[?@ == @]", "*", "keys(@)", "values(@) | length(@)"}

func init() { predicates["aliased"] = predAliased }

func predAliased(c Case) (r Result) {
	expr := c.expr()
	idx := 0
	if v, ok := c.Extra["doc"].(float64); ok {
		idx = int(v)
	}
	docs := aliasedDocs()
	if idx < 0 || idx >= len(docs) {
		r.Discard = "HARNESS:bad-doc-index"
		return
	}
	doc := docs[idx]
	plain := ref.DeepCopy(doc) // no sharing left
	n, st, perr := ref.ParseText(expr)
	if perr != nil || st != ref.LexOK {
		r.Discard = "generator:not-a-sentence"
		return
	}
	ev := &ref.Ev{}
	want, werr := ev.Eval(n, ref.DeepCopy(plain))
	got := libSearch(expr, doc)
	two, _ := libCompileSearchTwice(expr, doc)
	for _, o := range []libOut{got, two} {
		if o.Panic != nil {
			r.Violation = "Search panicked on a document whose parts share memory"
			r.Got = showOut(o)
			return
		}
		if !reflect.DeepEqual(doc, plain) {
			r.Violation = "Search modified a document whose parts share memory"
			r.Expected, r.Got = show(plain), show(doc)
			return
		}
		if ev.Ambiguous {
			continue
		}
		if (o.Err != nil) != (werr != nil) || (werr == nil && !ref.Matches(o.Val, want)) {
			r.Violation = "the result depends on which parts of the document share memory"
			r.Expected, r.Got = show(want), showOut(o)
			return
		}
	}
	r.Nontrivial = true
	return
}

// TestAliasedDocs (VERIF_PROP = C07, C06, C09).
func TestAliasedDocs(t *testing.T) {
	prop := envStr("VERIF_PROP", "C07")
	n := 0
	for i := range aliasedDocs() {
		for _, e := range aliasedExprs {
			for _, ctx := range []string{"%s", "[%s, %s]", "@ | %s"} {
				run(t, withExpr(Case{Property: prop, Kind: "aliased", Extra: map[string]interface{}{"doc": float64(i)}}, strings.Replace(ctx, "%s", e, -1)))
				n++
			}
		}
	}
	st := statsFor(prop)
	st.mu.Lock()
	st.Exhaustive[prop+".aliased-docs"] = fmt.Sprintf("%d expressions x 3 contexts x %d Go-built documents whose arrays and objects share memory (prefix, suffix and empty views of one array, one map under two keys): %d cases against the reference model on an unshared copy", len(aliasedExprs), len(aliasedDocs()), n)
	st.mu.Unlock()
}

// ---------------------------------------------------------------------------
// C12: struct types the process has never seen, first touched by several goroutines at once
// (anything the library learns about a type - a field table, a method set - is learnt then).

func init() { predicates["freshstruct"] = predFreshStruct }

var freshTypeCounter int64

func predFreshStruct(c Case) (r Result) {
	breadcrumb(c)
	const G = 8
	rounds := 24
	r.Nontrivial = true
	for round := 0; round < rounds; round++ {
		id := atomic.AddInt64(&freshTypeCounter, 1)
		// a type of its own: the field names make it distinct from every type built before
		fa, fb := fmt.Sprintf("Alpha%d", id), fmt.Sprintf("Beta%d", id)
		inner := reflect.StructOf([]reflect.StructField{{Name: fa, Type: reflect.TypeOf("")}, {Name: "Tags", Type: reflect.TypeOf([]string{})}})
		outer := reflect.StructOf([]reflect.StructField{{Name: fb, Type: reflect.PtrTo(inner)}, {Name: fa, Type: reflect.TypeOf(0.0)}, {Name: "Items", Type: reflect.SliceOf(inner)}})
		iv := reflect.New(inner)
		iv.Elem().Field(0).SetString(fmt.Sprintf("value-%d", id))
		iv.Elem().Field(1).Set(reflect.ValueOf([]string{"t1", "t2"}))
		ov := reflect.New(outer)
		ov.Elem().Field(0).Set(iv)
		ov.Elem().Field(1).SetFloat(float64(id))
		ov.Elem().Field(2).Set(reflect.Append(reflect.MakeSlice(reflect.SliceOf(inner), 0, 2), iv.Elem(), iv.Elem()))
		doc := ov.Interface()
		la, lb := "alpha"+fmt.Sprint(id), "beta"+fmt.Sprint(id)
		exprs := []string{lb + "." + la, la, "Items[*]." + la, lb + ".Tags[0]", "Items[1].Tags[-1]", "[" + la + ", " + lb + "." + la + "]", "Items[?" + la + "]." + la, "length(Items)"}
		wants := []string{fmt.Sprintf(`"value-%d"`, id), fmt.Sprint(id), fmt.Sprintf(`["value-%d","value-%d"]`, id, id), `"t1"`, `"t2"`, fmt.Sprintf(`[%d,"value-%d"]`, id, id), fmt.Sprintf(`["value-%d","value-%d"]`, id, id), "2"}
		var wg sync.WaitGroup
		start := make(chan struct{})
		outs := make([]libOut, G)
		for g := 0; g < G; g++ {
			wg.Add(1)
			go func(g int) {
				defer wg.Done()
				<-start
				e := exprs[g%len(exprs)]
				outs[g] = libSearch(e, doc)
			}(g)
		}
		close(start)
		wg.Wait()
		for g, o := range outs {
			if o.Panic != nil || o.Err != nil {
				r.Violation = "Search failed on a struct type first used by several goroutines at once"
				r.Got = exprs[g%len(exprs)] + " => " + showOut(o)
				return
			}
			nv, err := normalise(o.Val)
			if err != nil || ref.Canon(nv) != wants[g%len(exprs)] {
				r.Violation = "a concurrent first use of a struct type returned a different result than the same call made alone"
				r.Expected, r.Got = wants[g%len(exprs)], exprs[g%len(exprs)]+" => "+showOut(o)
				return
			}
		}
	}
	return
}

// TestC12FreshStructTypes: run under the race detector.
func TestC12FreshStructTypes(t *testing.T) {
	for i := 0; i < 12; i++ {
		run(t, Case{Property: "C12", Kind: "freshstruct", Expr: "@", Extra: map[string]interface{}{"batch": float64(i)}})
	}
}

// TestC14NumberTexts: number literals as texts (up to 25 integer digits, fractions, exponents):
// the literal denotes the value the standard library reads from the same text.
func TestC14NumberTexts(t *testing.T) {
	rapid.Check(t, func(t *rapid.T) {
		var sb strings.Builder
		if uni(t, 3, "neg") == 0 {
			sb.WriteByte('-')
		}
		nd := 1 + uni(t, 25, "intDigits")
		for i := 0; i < nd; i++ {
			d := uni(t, 10, "digit")
			if i == 0 && nd > 1 && d == 0 {
				d = 1 + uni(t, 9, "lead")
			}
			if i > 0 && uni(t, 3, "nines") == 0 {
				d = []int{9, 0, 5}[uni(t, 3, "nz5")]
			}
			sb.WriteByte(byte('0' + d))
		}
		if uni(t, 3, "frac") == 0 {
			sb.WriteByte('.')
			for i, nf := 0, 1+uni(t, 20, "fracDigits"); i < nf; i++ {
				sb.WriteByte(byte('0' + uni(t, 10, "fdigit")))
			}
		}
		if uni(t, 4, "exp") == 0 {
			sb.WriteString([]string{"e", "E", "e+", "e-", "E-"}[uni(t, 5, "expMark")])
			sb.WriteString(fmt.Sprint(uni(t, 30, "expV")))
		}
		text := sb.String()
		v, err := ref.ParseJSON(text)
		if err != nil {
			t.Skip("beyond float64")
		}
		pad := []string{"", "", " ", "\n"}[uni(t, 4, "pad")]
		run(t, Case{Property: "C14", Kind: "literal", Expr: "`" + pad + text + pad + "`", Doc: ref.Canon(v)})
		run(t, Case{Property: "C14", Kind: "literal", Expr: "`[" + text + "," + pad + text + "]`", Doc: "[" + ref.Canon(v) + "," + ref.Canon(v) + "]"})
	})
}

// ---------------------------------------------------------------------------
// Round 26 (what generated-input testing tends to miss).

// TestWidthSweep (VERIF_PROP = C03 or C05): n sibling constructs side by side for every n of
// the depth sweep (a counter that is not restored when a group closes counts width as depth).
func TestWidthSweep(t *testing.T) {
	prop := envStr("VERIF_PROP", "C05")
	kind := map[string]string{"C03": "parse", "C05": "robust"}[prop]
	if kind == "" {
		t.Fatalf("HARNESS-ERROR: TestWidthSweep under %s", prop)
	}
	type fam struct{ open, item, sep, close string }
	fams := []fam{{"", "(a)", "||", ""}, {"[", "a", ",", "]"}, {"{", "a:a", ",", "}"}, {"a", ".a", "", ""}, {"not_null(", "a", ",", ")"}, {"", "a", "|", ""}, {"", "!a", "&&", ""}, {"", "(a)", "|", ""}, {"", "[a]", "||", ""}, {"", "{a:a}", "&&", ""},
		{"", "a[0]", "||", ""}, {"", "abs(a)", "||", ""}, {"a", "[0]", "", ""}, {"a", "[*]", "", ""}, {"", "a[?(a)]", "||", ""}, {"", "(a==a)", "&&", ""}, {"", "`1`", "||", ""}, {"", "'x'", "||", ""}, {"[", "(a)", ",", "]"}, {"", "(((a)))", "||", ""}}
	n := 0
	for _, w := range deepSizes() {
		if w == 0 {
			continue
		}
		for _, f := range fams {
			items := make([]string, w)
			for i := range items {
				items[i] = f.item
			}
			e := f.open + strings.Join(items, f.sep) + f.close
			if len(e) > 60000 {
				continue // (C05: expressions up to 64 KiB)
			}
			run(t, Case{Property: prop, Kind: kind, Expr: e, Doc: `{"a":[{"a":1}]}`, Extra: map[string]interface{}{"cell": "width"}})
			n++
		}
	}
	st := statsFor(prop)
	st.mu.Lock()
	st.Exhaustive[prop+".width-sweep"] = fmt.Sprintf("%d constructs repeated side by side 1..72 and around 96..10001 times (texts up to 60000 bytes): %d expressions", len(fams), n)
	st.mu.Unlock()
}

// TestC13ErrorWords: data that reads like the library's own error messages. A compiled
// expression fails on such a document (the message quotes the value) and must behave on the
// next document as if nothing had happened.
func TestC13ErrorWords(t *testing.T) {
	words := []string{"popularity", "charity", "wrong number of args", "invalid arity", "unknown function: x", "Invalid type for: x", "SyntaxError", "syntax error", "<nil>", "not found", "error", "panic", "%!s(MISSING)", "%v", "index out of range", "unexpected end of JSON input", "Unclosed delimiter", "expected", "null", "true"}
	exprs := []string{"abs(s)", "join(', ', t)", "sum(l)", "length(n)", "ceil(s)", "keys(s)", "max(l)", "sort(l)", "to_number(s) | abs(s)", "not_null(abs(s))", "[abs(s)]", "s | abs(@)", "abs(s) || `1`", "starts_with(n, s)", "merge(s)", "sort_by(l, &@)", "map(&abs(@), l)", "avg(l)", "reverse(n)", "contains(n, s)"}
	n := 0
	for _, e := range exprs {
		var hist []interface{}
		hist = append(hist, []interface{}{"compile", e})
		good := `{"s":-3,"t":["a","b"],"l":[2,1],"n":"ab"}`
		docs := []string{good}
		for _, w := range words {
			q := ref.Canon(w)
			docs = append(docs, `{"s":`+q+`,"t":[`+q+`,1],"l":[1,`+q+`],"n":7}`, good)
		}
		for i, d := range docs {
			hist = append(hist, []interface{}{"doc", d})
			hist = append(hist, []interface{}{"search", "0", fmt.Sprint(i)})
			if i > 0 && i%2 == 0 {
				hist = append(hist, []interface{}{"search", "0", "0"})
			}
		}
		run(t, Case{Property: "C13", Kind: "history", Extra: map[string]interface{}{"history": hist}})
		n++
	}
	st := statsFor("C13")
	st.mu.Lock()
	st.Exhaustive["C13.error-words"] = fmt.Sprintf("%d compiled root-level calls, each searched alternately on a good document and on %d documents whose offending values read like the library's error messages: %d histories", len(exprs), len(words), n)
	st.mu.Unlock()
}

// TestUnknownBuiltins (VERIF_PROP = C06 or C12): every name in the library's function table
// (hook VerifFunctionNames) that the reference model does not know - a function added later -
// is called with the arrays, objects and strings of a document in every arity 1..3. Nothing is
// known about what it should return; that it leaves the document alone, and is free of data
// races when called by several goroutines, is C06's and C12's claim for "every built-in
// function in every argument position".
func TestUnknownBuiltins(t *testing.T) {
	prop := envStr("VERIF_PROP", "C06")
	known := map[string]bool{}
	for _, f := range []string{"abs", "avg", "ceil", "contains", "ends_with", "floor", "join", "keys", "length", "map", "max", "max_by", "merge", "min", "min_by", "not_null", "reverse", "sort", "sort_by", "starts_with", "sum", "to_array", "to_number", "to_string", "type", "values"} {
		known[f] = true
	}
	args := []string{"nums", "strs", "people", "o1", "strs[0]", "nums[0]", "&age", "&@", "`1`", "'a'", "nested", "@", "dups", "people[*].name"}
	doc := `{"people":[{"age":3,"name":"c"},{"age":1,"name":"a"},{"age":3,"name":"b"}],"nums":[3,1,2,1],"strs":["c","a","b","a"],"nested":[[2,1],[0],"x"],"o1":{"k":1,"j":[2,1]},"dups":["a","a","b","c","c","d"]}`
	n := 0
	for _, name := range jp.VerifFunctionNames() {
		if known[name] {
			continue
		}
		var exprs []string
		for _, a := range args {
			exprs = append(exprs, name+"("+a+")")
			for _, b := range args {
				exprs = append(exprs, name+"("+a+", "+b+")")
			}
		}
		for _, a := range []string{"nums", "strs", "people", "dups"} {
			exprs = append(exprs, name+"("+a+", `1`, `2`)", name+"("+a+", &@, 'x')", name+"('x', "+a+", "+a+")", "["+name+"("+a+"), "+a+"]", a+" | "+name+"(@)")
		}
		for _, e := range exprs {
			c := Case{Property: prop, Kind: "nomutate", Expr: e, Doc: doc, Extra: map[string]interface{}{"cell": "unknown-builtin"}}
			if prop == "C12" {
				c = Case{Property: prop, Kind: "unknown-builtin-concurrent", Expr: e, Doc: doc}
			}
			run(t, c)
			n++
		}
	}
	st := statsFor(prop)
	st.mu.Lock()
	st.Exhaustive[prop+".unknown-builtins"] = fmt.Sprintf("functions in the library's table that the reference model does not know: %d calls (0 on a tree with the 26 specified functions only)", n)
	st.mu.Unlock()
}

func init() { predicates["unknown-builtin-concurrent"] = predUnknownBuiltinConcurrent }

// predUnknownBuiltinConcurrent: 8 goroutines, one compiled expression, one shared document and
// a deep reader, under the race detector; afterwards the document is unchanged.
func predUnknownBuiltinConcurrent(c Case) (r Result) {
	expr := c.expr()
	breadcrumb(c)
	orig := mustJSON(c.Doc)
	shared := withSpareCapacity(ref.DeepCopy(orig))
	comp, cerr, pan := libCompile(expr)
	if cerr != nil || pan != nil {
		r.Discard = "does-not-compile"
		return
	}
	r.Nontrivial = true
	var wg sync.WaitGroup
	start := make(chan struct{})
	stop := make(chan struct{})
	for g := 0; g < 8; g++ {
		wg.Add(1)
		go func(g int) {
			defer wg.Done()
			<-start
			for i := 0; i < 20; i++ {
				safely(func() {
					if g%2 == 0 {
						_, _ = comp.Search(shared)
					} else {
						_, _ = jp.Search(expr, shared)
					}
				})
			}
		}(g)
	}
	var rwg sync.WaitGroup
	rwg.Add(1)
	go func() {
		defer rwg.Done()
		for {
			select {
			case <-stop:
				return
			default:
				_ = deepRead(shared)
				runtime.Gosched()
			}
		}
	}()
	close(start)
	wg.Wait()
	close(stop)
	rwg.Wait()
	if !reflect.DeepEqual(shared, orig) || !tailsIntact(shared) {
		r.Violation = "concurrent calls of a built-in function modified the shared document"
		r.Expected, r.Got = ref.Canon(orig), show(shared)
	}
	return
}

// ---------------------------------------------------------------------------
// Round 27 (the caller's Go program).

func init() {
	predicates["edited-typed"] = predEditedTyped
	predicates["pointer-pipe"] = predPointerPipe
}

var editedTypedExprs = []string{"Strs[1:]", "Strs[::-1]", "Nums[:2]", "Items[1:].Name", "Items[*].Name", "Strs", "Nums[0]", "sort(Strs)", "max(Nums)", "Items[?Name].Name", "sum(Nums)", "join(',', Strs)", "length(Strs)", "Strs[]", "reverse(Strs)", "Items[0].Tags[1:]", "Items[:2].Tags[:1]",
	"Nums[?@ > `1`]", "Strs[-1]", "[Strs[0], Nums[-1]]", "Items[1].Name", "Inner.Tags[::-1]", "Ptr.Tags[0]", "contains(Strs, 'y')", "sort_by(Items, &Name)[0].Name", "max_by(Items, &Name).Name", "map(&Name, Items)", "avg(Nums)", "Strs[0:2] | [1]", "to_string(Strs)", "Name"}

// predEditedTyped: one compiled expression, one struct document whose slices the caller edits
// in place (an element, then the whole buffer refilled at the same length) between searches:
// every search equals the one-shot Search of the document as it is now.
func predEditedTyped(c Case) (r Result) {
	expr := c.expr()
	comp, cerr, pan := libCompile(expr)
	if cerr != nil || pan != nil {
		r.Discard = "does-not-compile"
		return
	}
	in := &hwInner{Name: "n", Tags: []string{"x", "y", "z"}}
	d := &hwDoc{Name: "d", Strs: []string{"a", "b", "c"}, Nums: []float64{1, 2, 3}, Items: []*hwInner{in, {Name: "m", Tags: []string{"p", "q"}}, {Name: "k", Tags: []string{"t"}}}, Inner: *in, Ptr: in}
	render := func(o libOut) string {
		if o.Panic != nil {
			return "panic: " + fmt.Sprint(o.Panic)
		}
		if o.Err != nil {
			return "error"
		}
		n, err := normalise(o.Val)
		if err != nil {
			return fmt.Sprintf("unserialisable %T", o.Val)
		}
		return ref.Canon(n)
	}
	edits := []func(){
		func() {},
		func() { d.Strs[1] = "y"; d.Nums[0] = 110; d.Items[1].Name = "after"; d.Items[0].Tags[1] = "Y" },
		func() { d.Strs = append(d.Strs[:0], "x", "y", "zz"); d.Nums = append(d.Nums[:0], 7, 8, 9) },
		func() { d.Items[0], d.Items[2] = d.Items[2], d.Items[0]; d.Inner.Tags[0] = "I"; d.Name = "e" },
		func() { d.Strs[0], d.Strs[2] = d.Strs[2], d.Strs[0]; d.Nums[2] = -1 },
	}
	r.Nontrivial = true
	for step, edit := range edits {
		edit()
		var got libOut
		got.Panic = safely(func() { got.Val, got.Err = comp.Search(d) })
		g := render(got) // rendered now: a result may be part of the document
		one := libSearch(expr, d)
		if strings.HasPrefix(g, "panic") {
			r.Violation = "Search panicked"
			r.Got = g
			return
		}
		if g != render(one) {
			r.Violation = fmt.Sprintf("a compiled expression searched the caller's struct document after %d in-place edits of its slices and did not return what the one-shot Search returns for the document as it is now", step)
			r.Expected, r.Got = "one-shot: "+render(one), "compiled: "+g
			return
		}
	}
	return
}

func TestC13EditedTypedDocs(t *testing.T) {
	for _, e := range editedTypedExprs {
		run(t, Case{Property: "C13", Kind: "edited-typed", Expr: e})
	}
	st := statsFor("C13")
	st.mu.Lock()
	st.Exhaustive["C13.edited-typed-docs"] = fmt.Sprintf("%d expressions over the typed slices of a struct document edited in place 4 times (elements, refilled buffers, swapped pointers), compiled against one-shot", len(editedTypedExprs))
	st.mu.Unlock()
}

// predPointerPipe: the pipe law (library against library) on caller-built documents that hold
// pointers to maps, slices, structs and pointers below the root.
func predPointerPipe(c Case) (r Result) {
	a := c.expr()
	b, _ := c.Extra["b"].(string)
	m := map[string]interface{}{"cpu": 2.0, "mem": "1G"}
	tags := []interface{}{"a", "b"}
	strs := []string{"s1", "s2"}
	in := &hwInner{Name: "n", Tags: []string{"x"}}
	var any interface{} = map[string]interface{}{"k": 1.0}
	doc := map[string]interface{}{"limits": &m, "tags": &tags, "strs": &strs, "p": in, "pp": &in, "any": &any, "plain": m, "list": []interface{}{&m, &tags, in}}
	whole := libSearch("("+a+") | ("+b+")", doc)
	s1 := libSearch(a, doc)
	if whole.Panic != nil || s1.Panic != nil {
		r.Violation = "Search panicked on a document holding pointers"
		r.Got = showOut(whole) + " / " + showOut(s1)
		return
	}
	var s2 libOut
	if s1.Err == nil {
		s2 = libSearch(b, s1.Val)
		if s2.Panic != nil {
			r.Violation = "Search panicked on the intermediate value"
			r.Got = showOut(s2)
			return
		}
	}
	r.Nontrivial = true
	render := func(o libOut) string {
		if o.Err != nil {
			return "error"
		}
		n, err := normalise(o.Val)
		if err != nil {
			return fmt.Sprintf("unserialisable %T", o.Val)
		}
		if unorderedExpr(a + b) {
			return sortedCanon(n)
		}
		return ref.Canon(n)
	}
	splitErr := s1.Err != nil || s2.Err != nil
	if (whole.Err != nil) != splitErr {
		r.Violation = "'A | B' is an error exactly when one of the two steps is: violated on a document holding pointers"
		r.Expected, r.Got = fmt.Sprintf("split: step1=%s step2=%s", render(s1), render(s2)), "composed: "+render(whole)
		return
	}
	if whole.Err == nil && render(whole) != render(s2) {
		r.Violation = "Search('A | B', d) differs from Search(B, Search(A, d)) on a document holding pointers"
		r.Expected, r.Got = "split: "+render(s2), "composed: "+render(whole)
	}
	return
}

func TestC15PointerDocs(t *testing.T) {
	as := []string{"limits", "tags", "strs", "p", "pp", "any", "plain", "list[0]", "list[1]", "list[2]", "[limits][0]", "@", "list", "not_null(limits)", "limits || tags"}
	bs := []string{"cpu", "[0]", "keys(@)", "type(@)", "Name", "length(@)", "@", "k", "[*]", "*", "to_string(@)", "[0].cpu", "Tags[0]", "!@", "@ == @", "[]", "[1:]", "not_null(@)"}
	n := 0
	for _, a := range as {
		for _, b := range bs {
			run(t, Case{Property: "C15", Kind: "pointer-pipe", Expr: a, Extra: map[string]interface{}{"b": b}})
			n++
		}
	}
	st := statsFor("C15")
	st.mu.Lock()
	st.Exhaustive["C15.pointer-docs"] = fmt.Sprintf("%d first stages x %d second stages on a caller-built document holding pointers to maps, slices, structs and pointers: %d pipes, composed against two-step", len(as), len(bs), n)
	st.mu.Unlock()
}

// unorderedExpr: the expression iterates over the members of an object (object wildcard, keys,
// values), whose order is unspecified: two evaluations may list them differently.
func unorderedExpr(e string) bool {
	if strings.Contains(e, "keys(") || strings.Contains(e, "values(") {
		return true
	}
	for i := 0; i < len(e); i++ {
		if e[i] == '*' && (i == 0 || e[i-1] != '[') {
			return true
		}
	}
	return false
}

// sortedCanon renders a value with the elements of every array sorted (for unorderedExpr only).
func sortedCanon(v interface{}) string {
	switch t := v.(type) {
	case []interface{}:
		parts := make([]string, len(t))
		for i, e := range t {
			parts[i] = sortedCanon(e)
		}
		sortStrings(parts)
		return "[" + strings.Join(parts, ",") + "]"
	case map[string]interface{}:
		ks := ref.SortedKeys(t)
		parts := make([]string, len(ks))
		for i, k := range ks {
			parts[i] = ref.Canon(k) + ":" + sortedCanon(t[k])
		}
		return "{" + strings.Join(parts, ",") + "}"
	}
	return ref.Canon(v)
}

// TestC16ToNumberTexts: to_number over every text of the C09 string universe and a list of
// spellings other number parsers accept, bare and inside lists, objects and map(): the result
// is JSON data (a float64 or null), never another Go number type.
func TestC16ToNumberTexts(t *testing.T) {
	texts := append([]string{}, c09Strings...)
	for _, s := range []string{"0x1F", "0o17", "0b101", "0X1F", "-0x1f", "+0x1F", "1_000", "0x1p-2", "1e5", "1E+5", "0.5e-3", "١٢٣", "１２３", "1,5", "1 000", "Inf", "-inf", "infinity", "NaN", "nan", "0x", "0b", "0o", "00", "007", "-0", "+0", ".5", "5.", "1e", "e5", "0e0", "9223372036854775807", "18446744073709551615", "1e308", "1e309", "-1e309", "4.9e-324", "1e-400"} {
		texts = append(texts, ref.Canon(s))
	}
	n := 0
	for _, q := range texts {
		doc := `{"s":` + q + `,"l":[` + q + `,"1",` + q + `]}`
		for _, e := range []string{"to_number(s)", "[to_number(s)]", "{a: to_number(s)}", "map(&to_number(@), l)", "l[*].to_number(@)", "to_number(s) || `0`", "not_null(to_number(s), `1`)", "[to_number(s), to_number(l[1])]", "to_number(to_string(to_number(s)))"} {
			run(t, Case{Property: "C16", Kind: "jsondata", Expr: e, Doc: doc, Extra: map[string]interface{}{"cell": "to_number-text"}})
			n++
		}
	}
	st := statsFor("C16")
	st.mu.Lock()
	st.Exhaustive["C16.to_number-texts"] = fmt.Sprintf("%d number-like texts x 9 positions: %d cases", len(texts), n)
	st.mu.Unlock()
}

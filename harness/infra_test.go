package harness

// Infrastructure shared by all checks: statistics (evaluations, distinct
// non-trivial cases, class histogram, samples), case files for replay, and
// panic-safe wrappers around the library.

import (
	"encoding/base64"
	"encoding/binary"
	"encoding/json"
	"fmt"
	"hash/fnv"
	"os"
	"path/filepath"
	"reflect"
	"sort"
	"strconv"
	"strings"
	"sync"
	"testing"
	"unicode/utf8"

	jp "github.com/jmespath/go-jmespath"

	"verifharness/ref"
)

// ---------------------------------------------------------------------------
// Case files

// Case is a self-contained, replayable test case. Kind selects the predicate.
type Case struct {
	Property string                 `json:"property"`
	Kind     string                 `json:"kind"`
	Expr     string                 `json:"expr,omitempty"`
	ExprB64  string                 `json:"expr_b64,omitempty"` // expression bytes when they are not valid UTF-8
	Doc      string                 `json:"doc,omitempty"`      // JSON text
	Extra    map[string]interface{} `json:"extra,omitempty"`
	Before   []string               `json:"before,omitempty"`   // unrelated library calls made first (poison_test.go); nil: chosen from the case's hash
	Note     string                 `json:"note,omitempty"`     // filled on failure: what was violated
	Expected string                 `json:"expected,omitempty"` // filled on failure
	Got      string                 `json:"got,omitempty"`      // filled on failure
}

func (c Case) key() string {
	b, _ := json.Marshal(struct {
		K, E, B, D string
		X          map[string]interface{}
	}{c.Kind, c.Expr, c.ExprB64, c.Doc, c.Extra})
	return string(b)
}

// expr returns the expression text (decoding ExprB64 when present).
func (c Case) expr() string {
	if c.ExprB64 != "" {
		b, err := base64.StdEncoding.DecodeString(c.ExprB64)
		if err != nil {
			panic("HARNESS-ERROR: bad expr_b64")
		}
		return string(b)
	}
	return c.Expr
}

// withExpr stores an arbitrary byte string as the expression of a case.
func withExpr(c Case, e string) Case {
	if utf8.ValidString(e) {
		c.Expr, c.ExprB64 = e, ""
	} else {
		c.Expr, c.ExprB64 = "", base64.StdEncoding.EncodeToString([]byte(e))
	}
	return c
}

// Result of evaluating a predicate on a case.
type Result struct {
	Nontrivial bool
	Classes    []string
	Discard    string // non-empty: the case was outside the domain / ambiguous (reason)
	Known      string // non-empty: explained by this open known finding (id)
	Violation  string // non-empty: the property is violated (description)
	Expected   string
	Got        string
}

func (r *Result) class(c string) { r.Classes = append(r.Classes, c) }

// predicates maps Case.Kind to its predicate; filled by the check files.
var predicates = map[string]func(Case) Result{}

// ---------------------------------------------------------------------------
// Statistics

type Stats struct {
	mu          sync.Mutex
	Property    string            `json:"property"`
	Evaluations int64             `json:"evaluations"`
	Classes     map[string]int64  `json:"classes"`
	Discarded   map[string]int64  `json:"discarded"`
	Known       map[string]int64  `json:"excluded_known"`
	Samples     []json.RawMessage `json:"samples"`
	Exhaustive  map[string]string `json:"exhaustive,omitempty"`
	Notes       []string          `json:"notes,omitempty"`
	hashes      map[uint64]struct{}
	sampleSeen  int64
	lcg         uint64
}

func newStats(prop string) *Stats {
	return &Stats{Property: prop, Classes: map[string]int64{}, Discarded: map[string]int64{},
		Known: map[string]int64{}, hashes: map[uint64]struct{}{}, Exhaustive: map[string]string{}, lcg: 0x9E3779B97F4A7C15}
}

var (
	statsMu  sync.Mutex
	allStats = map[string]*Stats{}
)

func statsFor(prop string) *Stats {
	statsMu.Lock()
	defer statsMu.Unlock()
	s, ok := allStats[prop]
	if !ok {
		s = newStats(prop)
		allStats[prop] = s
	}
	return s
}

func hash64(s string) uint64 {
	h := fnv.New64a()
	h.Write([]byte(s))
	return h.Sum64()
}

// Record accounts for one evaluated case.
func (s *Stats) Record(c Case, r Result) {
	s.mu.Lock()
	defer s.mu.Unlock()
	s.Evaluations++
	for _, cl := range r.Classes {
		s.Classes[cl]++
	}
	if r.Discard != "" {
		s.Discarded[r.Discard]++
	}
	if r.Known != "" {
		s.Known[r.Known]++
	}
	if r.Nontrivial && r.Discard == "" {
		h := hash64(c.key())
		if _, dup := s.hashes[h]; !dup {
			s.hashes[h] = struct{}{}
			s.sample(c)
		}
	}
}

// RecordKey accounts for a case identified by a key string only (enumerations).
func (s *Stats) RecordKey(key string, nontrivial bool, sample func() interface{}, classes ...string) {
	s.mu.Lock()
	defer s.mu.Unlock()
	s.Evaluations++
	for _, cl := range classes {
		s.Classes[cl]++
	}
	if nontrivial {
		h := hash64(key)
		if _, dup := s.hashes[h]; !dup {
			s.hashes[h] = struct{}{}
			if sample != nil {
				s.sampleAny(sample)
			}
		}
	}
}

func (s *Stats) sample(c Case) { s.sampleAny(func() interface{} { return c }) }

func (s *Stats) sampleAny(f func() interface{}) {
	const keep = 12
	s.sampleSeen++
	idx := -1
	if len(s.Samples) < keep {
		idx = len(s.Samples)
		s.Samples = append(s.Samples, nil)
	} else {
		s.lcg = s.lcg*6364136223846793005 + 1442695040888963407
		j := int64((s.lcg >> 33) % uint64(s.sampleSeen))
		if j < keep {
			idx = int(j)
		}
	}
	if idx >= 0 {
		b, _ := json.Marshal(f())
		if len(b) > 2000 {
			b, _ = json.Marshal(map[string]interface{}{"truncated": string(b[:1500])})
		}
		s.Samples[idx] = b
	}
}

func (s *Stats) Class(cl string, n int64) {
	s.mu.Lock()
	s.Classes[cl] += n
	s.mu.Unlock()
}

func (s *Stats) Note(n string) {
	s.mu.Lock()
	s.Notes = append(s.Notes, n)
	s.mu.Unlock()
}

// flush writes the statistics next to the path in VERIF_STATS_OUT.
func (s *Stats) flush(path string) error {
	s.mu.Lock()
	defer s.mu.Unlock()
	b, err := json.Marshal(s)
	if err != nil {
		return err
	}
	if err := os.WriteFile(path, b, 0o644); err != nil {
		return err
	}
	hs := make([]uint64, 0, len(s.hashes))
	for h := range s.hashes {
		hs = append(hs, h)
	}
	sort.Slice(hs, func(i, j int) bool { return hs[i] < hs[j] })
	buf := make([]byte, 8*len(hs))
	for i, h := range hs {
		binary.LittleEndian.PutUint64(buf[8*i:], h)
	}
	return os.WriteFile(path+".hashes", buf, 0o644)
}

func TestMain(m *testing.M) {
	code := m.Run()
	if out := os.Getenv("VERIF_STATS_OUT"); out != "" {
		statsMu.Lock()
		i := 0
		for _, s := range allStats {
			p := out
			if i > 0 {
				p = out + "." + strconv.Itoa(i)
			}
			if err := s.flush(p); err != nil {
				fmt.Fprintln(os.Stderr, "HARNESS-ERROR: cannot write stats:", err)
				code = 2
			}
			i++
		}
		statsMu.Unlock()
	}
	os.Exit(code)
}

// ---------------------------------------------------------------------------
// Failure reporting

type failer interface {
	Fatalf(format string, args ...interface{})
	Helper()
}

func shardID() string {
	if s := os.Getenv("VERIF_SHARD"); s != "" {
		return s
	}
	return "0"
}

// writeReplay stores the failing case; the last write (the shrunk case when
// rapid re-runs the minimal example) is what the driver picks up.
func writeReplay(c Case) string {
	dir := os.Getenv("VERIF_REPLAY_DIR")
	if dir == "" {
		dir = os.TempDir()
	}
	p := filepath.Join(dir, fmt.Sprintf("replay-%s-%s-%s.json", c.Property, c.Kind, shardID()))
	b, _ := json.MarshalIndent(c, "", "  ")
	_ = os.WriteFile(p, b, 0o644)
	return p
}

// run evaluates the predicate of c, records statistics and fails t on a violation.
func run(t failer, c Case) Result {
	t.Helper()
	pred, ok := predicates[c.Kind]
	if !ok {
		t.Fatalf("HARNESS-ERROR: no predicate for kind %q", c.Kind)
	}
	if c.Before == nil && !poisonOff {
		c.Before = poisonFor(c)
	}
	leaveCrumb(c)
	applyBefore(c.Before)
	r := pred(c)
	if len(c.Before) > 0 {
		r.class("after-hostile-calls")
	}
	statsFor(c.Property).Record(c, r)
	if len(r.Discard) >= 8 && r.Discard[:8] == "HARNESS:" {
		t.Fatalf("HARNESS-ERROR: %s: %s (expr=%q doc=%s)", r.Discard, r.Violation, c.Expr, c.Doc)
	}
	if r.Violation != "" && r.Known == "" {
		c.Note, c.Expected, c.Got = r.Violation, r.Expected, r.Got
		p := writeReplay(c)
		t.Fatalf("VIOLATION-CASE file=%s property=%s kind=%s expr=%q doc=%s: %s (expected %s, got %s)",
			p, c.Property, c.Kind, c.Expr, c.Doc, r.Violation, r.Expected, r.Got)
	}
	return r
}

// ---------------------------------------------------------------------------
// Library wrappers (panic safe)

type libOut struct {
	Mutated  string // non-empty: the returned value changed after later searches (description)
	Val      interface{}
	Err      error
	Panic    interface{}
	Compiled bool
}

func safely(f func()) (p interface{}) {
	defer func() {
		if r := recover(); r != nil {
			p = r
		}
	}()
	f()
	return nil
}

// libCompile compiles; panics are captured.
func libCompile(expr string) (c *jp.JMESPath, err error, pan interface{}) {
	pan = safely(func() { c, err = jp.Compile(expr) })
	return
}

// libSearch runs the one-shot Search.
func libSearch(expr string, doc interface{}) (out libOut) {
	out.Panic = safely(func() { out.Val, out.Err = jp.Search(expr, doc) })
	return
}

// libCompileSearch runs Compile then Search on the compiled expression.
func libCompileSearch(expr string, doc interface{}) (out libOut) {
	out.Panic = safely(func() {
		c, err := jp.Compile(expr)
		if err != nil {
			out.Err = err
			return
		}
		out.Compiled = true
		out.Val, out.Err = c.Search(doc)
	})
	return
}

var interveningDocs = []interface{}{nil, mustJSON(`{"a":{"a":[{"a":1,"q":"x"},{"a":[2,3],"q":null},[4,[5]],0],"q":{"a":"r","q":[1,2]}},"q":[[1,{"a":2}],[],"r",null,{"q":{"a":0}}],"b":[3,1,2],"c":"s","d":[["x"],[]],"nums":["a",1],"strs":[1,"a"]}`), []interface{}{[]interface{}{3.0, 1.0}, "s", map[string]interface{}{"a": "z"}}}

// libCompileSearchTwice compiles once, searches doc, then searches a few unrelated
// documents with the same compiled expression, then searches doc again: both
// results are returned (a compiled expression must be history independent).
func libCompileSearchTwice(expr string, doc interface{}) (first, again libOut) {
	first.Panic = safely(func() {
		c, err := jp.Compile(expr)
		if err != nil {
			first.Err = err
			return
		}
		first.Compiled = true
		first.Val, first.Err = c.Search(ref.DeepCopy(doc))
		// a value handed back by Search must not change when the expression is used again
		// (results aliasing pooled or scratch memory of the compiled expression)
		shownBefore := ""
		if first.Err == nil {
			shownBefore = show(first.Val)
		}
		defer func() {
			if first.Err == nil && first.Panic == nil && again.Panic == nil {
				if after := show(first.Val); after != shownBefore {
					first.Mutated = "was " + shownBefore + ", became " + after
				}
			}
		}()
		unrelatedParses()
		for _, d := range interveningDocs {
			if p := safely(func() { _, _ = c.Search(ref.DeepCopy(d)) }); p != nil {
				again.Panic = p
				return
			}
		}
		// and documents of the same shape with other values (the other zero, numbers that
		// print in exponent form, other strings; arrays reversed)
		for _, mode := range []int{3, 4, 5} {
			if p := safely(func() { _, _ = c.Search(varyDoc(doc, mode)) }); p != nil {
				again.Panic = p
				return
			}
		}
		again.Compiled = true
		again.Val, again.Err = c.Search(ref.DeepCopy(doc))
		// a second compiled expression that sees the same-shape documents BEFORE the document
		// itself (whatever the first evaluation of a value leaves behind is then left by another
		// value): its answer is the one reported when it differs
		for _, mode := range []int{3, 4, 5} {
			c2, err := jp.Compile(expr)
			if err != nil {
				break
			}
			_, _ = c2.Search(varyDoc(doc, mode))
			var primed libOut
			primed.Compiled = true
			primed.Val, primed.Err = c2.Search(ref.DeepCopy(doc))
			if showOut(primed) != showOut(again) {
				again = primed
				break
			}
		}
	})
	if first.Panic != nil && again.Panic == nil {
		again.Panic = first.Panic
	}
	return
}

// show renders a value for reports. It is depth limited: a broken library may hand
// back (or turn the document into) a cyclic structure.
func show(v interface{}) string {
	var sb strings.Builder
	showInto(&sb, v, 0)
	s := sb.String()
	if len(s) > 4000 {
		s = s[:4000] + "...(truncated)"
	}
	return s
}

func showInto(sb *strings.Builder, v interface{}, depth int) {
	if depth > 40 {
		sb.WriteString("<nesting deeper than 40: cyclic?>")
		return
	}
	if sb.Len() > 5000 {
		return
	}
	switch t := v.(type) {
	case nil:
		sb.WriteString("null")
	case bool, float64:
		sb.WriteString(ref.Canon(t))
	case string:
		sb.WriteString(ref.QuoteJSON(t))
	case []interface{}:
		if t == nil {
			sb.WriteString("[]interface{}(nil)")
			return
		}
		sb.WriteByte('[')
		for i, e := range t {
			if i > 0 {
				sb.WriteByte(',')
			}
			showInto(sb, e, depth+1)
		}
		sb.WriteByte(']')
	case map[string]interface{}:
		if t == nil {
			sb.WriteString("map[string]interface{}(nil)")
			return
		}
		sb.WriteByte('{')
		for i, k := range ref.SortedKeys(t) {
			if i > 0 {
				sb.WriteByte(',')
			}
			sb.WriteString(ref.QuoteJSON(k))
			sb.WriteByte(':')
			showInto(sb, t[k], depth+1)
		}
		sb.WriteByte('}')
	case ref.Bag:
		sb.WriteString("bag")
		showInto(sb, t.Items, depth+1)
	case ref.TextOf:
		sb.WriteString("textof(")
		showInto(sb, t.V, depth+1)
		sb.WriteByte(')')
	case ref.ExpRef:
		sb.WriteString("&expref")
	default:
		// an unexpected Go type: print its type and a bounded rendering
		func() {
			defer func() {
				if recover() != nil {
					fmt.Fprintf(sb, "<%T>", v)
				}
			}()
			s := fmt.Sprintf("%T", v)
			switch reflect.ValueOf(v).Kind() {
			case reflect.Slice, reflect.Map, reflect.Ptr, reflect.Struct, reflect.Interface:
				if b, err := json.Marshal(v); err == nil && len(b) < 600 {
					s += " " + string(b)
				}
			default:
				s += fmt.Sprintf(" %v", v)
			}
			sb.WriteString(s)
		}()
	}
}

func showOut(o libOut) string {
	if o.Panic != nil {
		return fmt.Sprintf("PANIC(%v)", o.Panic)
	}
	if o.Err != nil {
		return fmt.Sprintf("ERROR(%v)", o.Err)
	}
	return show(o.Val)
}

// isJSONData: the C16 validity predicate (type walk). Depth limited: a broken library
// may return a cyclic structure, which is certainly not JSON data.
func isJSONData(v interface{}) bool { return isJSONDataDepth(v, 0) }

func isJSONDataDepth(v interface{}, depth int) bool {
	if depth > 20000 {
		return false
	}
	switch t := v.(type) {
	case nil, bool, string:
		return true
	case float64:
		return t == t && t <= 1.797693134862315708145274237317043567981e+308 && t >= -1.797693134862315708145274237317043567981e+308
	case []interface{}:
		if t == nil {
			return false
		}
		for _, e := range t {
			if !isJSONDataDepth(e, depth+1) {
				return false
			}
		}
		return true
	case map[string]interface{}:
		if t == nil {
			return false
		}
		for _, e := range t {
			if !isJSONDataDepth(e, depth+1) {
				return false
			}
		}
		return true
	}
	return false
}

func mustJSON(s string) interface{} {
	v, err := ref.ParseJSON(s)
	if err != nil {
		panic("HARNESS-ERROR: bad JSON in case: " + err.Error())
	}
	return v
}

func envInt(name string, def int) int {
	if s := os.Getenv(name); s != "" {
		if v, err := strconv.Atoi(s); err == nil {
			return v
		}
	}
	return def
}

// active known findings (ids), passed by the driver from KNOWN_FINDINGS.txt.
func kfActive(id string) bool {
	for _, k := range splitComma(os.Getenv("VERIF_KF")) {
		if k == id {
			return true
		}
	}
	return false
}

func splitComma(s string) []string {
	var out []string
	cur := ""
	for _, c := range s {
		if c == ',' {
			if cur != "" {
				out = append(out, cur)
			}
			cur = ""
		} else {
			cur += string(c)
		}
	}
	if cur != "" {
		out = append(out, cur)
	}
	return out
}

// unrelatedParses compiles and searches a few other expressions (every kind of token that
// carries a value: numbers in indices and slices, literals, raw strings, quoted identifiers).
// A compiled expression must own what it was built from; whatever these calls return is ignored.
func unrelatedParses() {
	for _, e := range []string{"z[7:8:9].y[::-3][-4]", "`[9,8,7]` | 'other' | \"q\".r[5]", "x[-2:-6:-2]", "sort_by(`[{\"k\":2},{\"k\":1}]`, &k)[1:]", "zz[ 11 : 12 : 13 ]"} {
		safely(func() { _, _ = jp.Compile(e) })
		safely(func() { _, _ = jp.Search(e, nil) })
	}
}

package harness

// C06 (document never modified), C15 (pipe = composition, referential
// transparency), C16 (results are JSON data).

import (
	"encoding/json"
	"fmt"
	"math"
	"reflect"
	"strconv"
	"strings"
	"testing"

	"pgregory.net/rapid"

	"verifharness/ref"
)

func init() {
	predicates["nomutate"] = predNoMutate
	predicates["jsondata"] = predJSONData
	predicates["pipe"] = predPipe
	predicates["subst"] = predSubst
}

// ---------------------------------------------------------------------------
// C06

const sentinel = "\x00SENTINEL\x00"

// withSpareCapacity rebuilds v so that every array has hidden spare capacity (more than its
// own length: a whole copy of the array fits behind it, as in a buffer grown by append)
// filled with sentinels: an append onto a document slice becomes visible.
func withSpareCapacity(v interface{}) interface{} {
	switch t := v.(type) {
	case []interface{}:
		out := make([]interface{}, len(t), 2*len(t)+3)
		for i, e := range t {
			out[i] = withSpareCapacity(e)
		}
		full := out[:cap(out)]
		for i := len(t); i < len(full); i++ {
			full[i] = sentinel
		}
		return out
	case map[string]interface{}:
		out := make(map[string]interface{}, len(t))
		for k, e := range t {
			out[k] = withSpareCapacity(e)
		}
		return out
	}
	return v
}

// tailsIntact checks the hidden tails of all arrays.
func tailsIntact(v interface{}) bool { return tailsIntactDepth(v, 0) }

func tailsIntactDepth(v interface{}, depth int) bool {
	if depth > 10000 {
		return false // cyclic: certainly modified
	}
	switch t := v.(type) {
	case []interface{}:
		full := t[:cap(t)]
		for i := len(t); i < len(full); i++ {
			if s, ok := full[i].(string); !ok || s != sentinel {
				return false
			}
		}
		for _, e := range t {
			if !tailsIntactDepth(e, depth+1) {
				return false
			}
		}
	case map[string]interface{}:
		for _, e := range t {
			if !tailsIntactDepth(e, depth+1) {
				return false
			}
		}
	}
	return true
}

func predNoMutate(c Case) (r Result) {
	expr := c.expr()
	orig := mustJSON(c.Doc)
	doc := withSpareCapacity(orig)
	snap := ref.DeepCopy(orig)
	// classification through the reference model (when the text is a sentence)
	if n, st, perr := ref.ParseText(expr); perr == nil && st == ref.LexOK {
		ev := &ref.Ev{}
		_, err := ev.Eval(n, ref.DeepCopy(orig))
		for k := range ev.Stats {
			if strings.HasPrefix(k, "call.") || strings.HasPrefix(k, "proj.") || strings.HasPrefix(k, "flatten.") || strings.HasPrefix(k, "filter.") || k == "slice.array" || strings.HasPrefix(k, "vproj.") {
				r.Nontrivial = true
			}
			if strings.HasPrefix(k, "call.") {
				r.class(k)
			}
		}
		if err != nil {
			r.class("path.error")
		} else {
			r.class("path.success")
		}
	}
	check := func(which string, o libOut) bool {
		if o.Panic != nil {
			r.Violation = which + " panicked"
			r.Got = showOut(o)
			return false
		}
		if !reflect.DeepEqual(doc, snap) {
			r.Violation = which + " modified the document it was given"
			r.Expected, r.Got = ref.Canon(snap), show(doc)
			return false
		}
		if !tailsIntact(doc) {
			r.Violation = which + " appended onto a slice of the document (spare capacity overwritten)"
			return false
		}
		return true
	}
	if raceBuild {
		// "no write to any part of it happens during the call": under the race detector a second
		// goroutine reads the whole document while Search runs, so that even a write of the value
		// that was already there (invisible to the comparison below) is reported
		breadcrumb(c)
		stop := make(chan struct{})
		done := make(chan struct{})
		go func() {
			defer close(done)
			for {
				select {
				case <-stop:
					return
				default:
					_ = deepRead(doc)
				}
			}
		}()
		defer func() { close(stop); <-done }()
		r.class("with-concurrent-reader")
	}
	if !check("Search(expr, doc)", libSearch(expr, doc)) {
		return
	}
	check("Compile(expr).Search(doc)", libCompileSearch(expr, doc))
	return
}

// unsortedDoc: documents whose arrays are visibly out of order for common keys.
func genUnsortedDoc(t *rapid.T) interface{} {
	n := rapid.IntRange(2, 7).Draw(t, "n")
	if uni(t, 4, "bigPeople") == 0 {
		n = bigSize(t, "peopleN")
	}
	people := make([]interface{}, n)
	for i := range people {
		m := map[string]interface{}{
			"age":  float64(rapid.IntRange(0, 5).Draw(t, "age")),
			"name": rapid.SampledFrom([]string{"z", "y", "x", "b", "a", "é"}).Draw(t, "name"),
			"tags": []interface{}{"t2", "t1"},
		}
		people[i] = m
	}
	// force disorder: largest first
	people[0].(map[string]interface{})["age"] = 9.0
	people[0].(map[string]interface{})["name"] = "zz"
	if rapid.Bool().Draw(t, "poison") {
		// the last key has another type: by-expression functions fail after partial work
		people[n-1].(map[string]interface{})["age"] = "old"
	}
	nums := []interface{}{3.0, 1.0, 2.0, 1.0}
	strs := []interface{}{"c", "a", "b"}
	if !moderateOnly && uni(t, 4, "hardNums") == 0 {
		// numbers and text whose representation matters (exponent form, both zeros, 17 digits, astral characters)
		nums = []interface{}{3.0, hardDocNumbers[uni(t, len(hardDocNumbers), "hn1")], negZero(), 0.0, hardDocNumbers[uni(t, len(hardDocNumbers), "hn2")], 2.0}
		strs = []interface{}{"c", hardDocStrings[uni(t, len(hardDocStrings), "hs1")], "a", hardDocStrings[uni(t, len(hardDocStrings), "hs2")]}
	}
	if uni(t, 4, "bigNums") == 0 {
		m := bigSize(t, "numsN")
		nums, strs = nil, nil
		for i := 0; i < m; i++ {
			nums = append(nums, float64((m-i)*3%17))
			strs = append(strs, []string{"c", "a", "b", "é"}[i%4]+strconv.Itoa((m-i)%7))
		}
	}
	// sometimes a wrong-typed element at the end: the element-typed array checks
	// (array[number], array[string]) then fail on this document only
	switch rapid.IntRange(0, 5).Draw(t, "poisonArrays") {
	case 0:
		nums = append(nums, "x")
	case 1:
		strs = append(strs, 7.0)
	case 2:
		nums, strs = strs, nums
	}
	return map[string]interface{}{
		"people": people,
		"nums":   nums,
		"strs":   strs,
		"nested": []interface{}{[]interface{}{2.0, 1.0}, []interface{}{0.0}, "x"},
		"o1":     map[string]interface{}{"k": 1.0, "j": []interface{}{2.0, 1.0}, "n": map[string]interface{}{"x": 1.0, "y": 2.0, "d": map[string]interface{}{"p": 1.0}}},
		"o2":     map[string]interface{}{"k": 2.0, "l": 3.0, "n": map[string]interface{}{"x": 3.0, "d": map[string]interface{}{"q": 2.0}}},
		// arrays that are in order already (a function that has nothing to do may hand its argument on)
		"empty":  map[string]interface{}{},
		"emptyl": []interface{}{},
		"sorted": []interface{}{1.0, 2.0, 3.0, 5.0},
		"sstrs":  []interface{}{"a", "b", "c"},
		"one":    []interface{}{7.0},
		"ranked": []interface{}{map[string]interface{}{"r": 1.0, "v": "x"}, map[string]interface{}{"r": 2.0, "v": "y"}, map[string]interface{}{"r": 2.0, "v": "z"}},
	}
}

var c06Templates = []string{
	"sort_by(people, &age)", "sort_by(people, &name)", "max_by(people, &age)", "min_by(people, &name)", "sort(nums)", "sort(strs)",
	"reverse(nums)", "reverse(people)", "merge(o1, o2)", "merge(o2, o1, o1)", "to_array(nums)", "to_array(o1)", "people[].tags[]", "nested[]",
	"map(&age, people)", "people[*].tags | [0]", "people[?age > `1`] | sort_by(@, &age)", "sort_by(people, &age)[0].tags", "people[::-1]",
	"nested[] | sort(@)", "not_null(nums, strs)", "values(o1)", "keys(o1)", "people | sort_by(@, &to_string(age))", "[nums, strs][] | reverse(@)",
	"sort_by(people[*], &age)", "people[*].{n: name, t: sort(tags)}", "sort_by(nested[?type(@)=='array'], &length(@))", "o1.j | sort(@) | reverse(@)",
	"to_string(nums)", "to_string(@)", "nums[*].to_string(@)", "map(&to_string(@), nums)", "to_string(nums[1])", "[to_string(nums[2]), to_string(nums[3])]", "strs[*].to_number(@)", "map(&to_number(@), strs)", "strs[*].reverse(@)", "strs[*].length(@)",
	"sort(nums) | to_string(@)", "to_string(people)", "{a: to_string(nums), b: nums}", "nums[*].abs(@)", "nums[*].ceil(@)", "nums[*].floor(@)", "max(nums)", "min(nums)", "sort_by(nums, &@)", "nums[?@ < `0`]", "nums[?@ >= `0`]",
	// an empty first operand is an operand like any other (not the place to build the result in)
	"merge(`{}`, o1)", "merge(`{}`, o1, o2)", "merge(empty, o1)", "merge(empty, o2, o1).k", "[merge(empty, o1), empty]", "merge(`{}`, @).nums", "merge(empty, empty)", "merge(o1, empty)", "[emptyl, nums][]", "[emptyl, strs][] | [0]", "sort(emptyl)", "reverse(emptyl)", "not_null(emptyl, nums)", "emptyl[*]", "merge(`{}`, {a: nums}) | a",
	// merge overwrites shallowly: an object under a key of both operands is replaced, not merged into
	"merge(o1, o2)", "merge(o2, o1)", "merge(@, {o1: o2})", "merge(o1, o2, o1)", "merge(`{\"n\":{\"q\":1,\"d\":{\"r\":0}}}`, o1)", "merge(`{\"n\":{\"q\":1}}`, o2, o1).n", "merge(o1, {n: o2.n})", "merge(o1, o2).n.d", "[merge(o1, o2), o1.n]", "merge(o1.n, o2.n)", "merge({a: o1.n}, {a: o2.n}).a",
	// identity-like inner calls on arrays that are sorted already, consumed by a call that reorders; and the sort idioms
	"reverse(sort(sorted))", "reverse(sort(sstrs))", "sort(sorted)", "reverse(sort_by(ranked, &r))", "sort_by(ranked, &r)", "reverse(map(&@, sorted))", "reverse(to_array(sorted))", "reverse(not_null(sorted))", "reverse(sorted[*])", "reverse(sorted[:])",
	"reverse(sorted[::1])", "reverse(sort_by(sorted, &@))", "sort(sort(sorted))", "reverse(reverse(sorted))", "reverse(sorted || nums)", "reverse((sorted))", "reverse(sorted | @)", "sort(one)", "reverse(one)", "reverse(sort(one))", "reverse(keys(o1))", "reverse(values(o2))",
	"sort_by(ranked, &r)[-1]", "sort_by(ranked, &r) | [-1]", "sort_by(ranked, &r)[-1].v", "sort_by(ranked, &r)[0]", "sort_by(people, &age)[-1]", "sort_by(people, &age) | [-1]", "sort_by(people, &age)[-1].name", "sort_by(people, &name)[0]", "sort(nums)[-1]", "sort(nums) | [0]",
	"sort_by(people, &age)[1]", "sort_by(people, &age)[-2:]", "reverse(sort_by(people, &age))[0]", "max_by(ranked, &r)", "min_by(ranked, &r)", "max_by(ranked, &r).v", "sort_by(ranked, &r)[:1]", "sort_by(ranked, &r) | [0] | v",
	"max_by(people, &age).tags | sort(@)", "join(',', strs)", "sum(nums)", "avg(nums)", "contains(nums, `1`)", "max(nums)", "min(strs)", "sort(strs) | join('', @)", "length(nums)", "sort_by(people, &age) | [0] | merge(@, o1)",
}

// TestC06: every function in every position over documents with unsorted arrays,
// success and error paths.
func TestC06(t *testing.T) {
	rapid.Check(t, func(t *rapid.T) {
		var doc interface{}
		var expr string
		switch rapid.IntRange(0, 2).Draw(t, "mode") {
		case 0:
			doc = genUnsortedDoc(t)
			expr = c06Templates[rapid.IntRange(0, len(c06Templates)-1).Draw(t, "tmpl")]
			if rapid.IntRange(0, 2).Draw(t, "wrap") == 0 {
				ctx := strictCtx[rapid.IntRange(0, len(strictCtx)-1).Draw(t, "ctx")]
				expr = fill(ctx.tmpl, "("+expr+")")
			}
		case 1:
			doc = genUnsortedDoc(t)
			g := &exprGen{t: t, f: fragAll}
			expr = ref.RenderSpaced(g.expr(doc, 0))
		default:
			doc = genDoc(t)
			expr = genExpr(t, doc, fragAll)
		}
		run(t, Case{Property: "C06", Kind: "nomutate", Expr: expr, Doc: ref.Canon(doc)})
	})
}

// ---------------------------------------------------------------------------
// C16

func predJSONData(c Case) (r Result) {
	expr := c.expr()
	n, st, perr := ref.ParseText(expr)
	if perr != nil || st != ref.LexOK {
		r.Discard = "precondition:not-a-sentence"
		return
	}
	doc := mustJSON(c.Doc)
	for _, o := range []libOut{libSearch(expr, ref.DeepCopy(doc)), libCompileSearch(expr, ref.DeepCopy(doc))} {
		if o.Panic != nil {
			r.Violation = "Search panicked"
			r.Got = showOut(o)
			return
		}
		if o.Err != nil {
			r.class("search.error")
			return
		}
		if !isJSONData(o.Val) {
			r.Violation = "a successful Search returned a value that is not JSON data"
			r.Expected, r.Got = "null, booleans, finite numbers, strings, non-nil arrays and string-keyed objects", show(o.Val)
			return
		}
		b, err := json.Marshal(o.Val)
		if err != nil {
			r.Violation = "the result cannot be serialised as JSON: " + err.Error()
			r.Got = show(o.Val)
			return
		}
		back, err := ref.ParseJSON(string(b))
		if err != nil || !reflect.DeepEqual(back, o.Val) {
			r.Violation = "the result does not survive a JSON round trip"
			r.Expected, r.Got = show(o.Val), fmt.Sprintf("%#v", back)
			return
		}
		if o.Val != nil {
			r.Nontrivial = true
		}
		r.class("result." + ref.TypeName(o.Val))
	}
	r.class("top." + n.T)
	if n.T == "Function" {
		r.class("topfn." + n.S)
	}
	// feedback: a result is JSON data, so it is a document; searching it with the same
	// compiled expression (whose previous results are still alive) must again give JSON
	// data and must leave the earlier results as they were
	if comp, err, pan := libCompile(expr); err == nil && pan == nil {
		cur := ref.DeepCopy(doc)
		var kept []interface{}
		var shown []string
		for round := 0; round < 3; round++ {
			var v interface{}
			var serr error
			if p := safely(func() { v, serr = comp.Search(cur) }); p != nil {
				r.Violation = fmt.Sprintf("Search panicked when given its own result as the document (round %d)", round+1)
				r.Got = fmt.Sprint(p)
				return
			}
			if serr != nil {
				break
			}
			if !isJSONData(v) {
				r.Violation = fmt.Sprintf("searching an earlier result with the same compiled expression returned a value that is not JSON data (round %d)", round+1)
				r.Got = show(v)
				return
			}
			if _, err := json.Marshal(v); err != nil {
				r.Violation = fmt.Sprintf("the result of searching an earlier result cannot be serialised as JSON (round %d): %s", round+1, err.Error())
				r.Got = show(v)
				return
			}
			for i, k := range kept {
				if now := show(k); now != shown[i] {
					r.class("earlier-result-changed-later") // C06/C13's business; counted only
				}
			}
			kept, shown = append(kept, v), append(shown, show(v))
			cur = v
			if round > 0 {
				r.class("feedback-rounds")
			}
		}
	}
	return
}

var c16EdgeArgs = []string{"`[1]`", "`[\"a\"]`", "`[2,1]`", "`[{}]`", "`{\"a\":[]}`", "`0`", "`-0`", "`[]`", "`{}`", "`\"\"`", "'inf'", "'nan'", "'Infinity'", "'-inf'", "'1e999'", "'0x1p4'", "`null`", "`[[]]`", "`[null]`", "@", "a", "b", "[]", "*", "[*]", "[?a]", "[0:0]", "a[10:]"}

// TestC16: all functions weighted equally, closure-threatening inputs injected often.
func TestC16(t *testing.T) {
	moderateOnly = true // the property quantifies over documents whose sums cannot overflow
	rapid.Check(t, func(t *rapid.T) {
		doc := genDoc(t)
		var expr string
		if rapid.IntRange(0, 2).Draw(t, "edge") == 0 {
			name := ref.FunctionNames[rapid.IntRange(0, len(ref.FunctionNames)-1).Draw(t, "fn")]
			sig := ref.Sigs[name]
			args := make([]string, 0, 3)
			nargs := len(sig.Params)
			if sig.Variadic {
				nargs += rapid.IntRange(0, 2).Draw(t, "extra")
			}
			for i := 0; i < nargs; i++ {
				pi := i
				if pi >= len(sig.Params) {
					pi = len(sig.Params) - 1
				}
				if len(sig.Params[pi]) == 1 && sig.Params[pi][0] == ref.PExpref {
					args = append(args, rapid.SampledFrom(c09Exprefs).Draw(t, "ref"))
				} else {
					args = append(args, rapid.SampledFrom(c16EdgeArgs).Draw(t, "edgeArg"))
				}
			}
			expr = name + "(" + strings.Join(args, ", ") + ")"
			switch uni(t, 9, "edgeCtx") {
			case 5:
				expr = expr + " | merge(@, {prev: @})"
			case 6:
				expr = expr + " | not_null(@, [@]) | [@, to_array(@)]"
			case 7:
				expr = expr + " | [merge({a: @}, {b: @}), @] | merge(@[0], {prev: @[0], first: @[1]})"
			case 8:
				expr = "[" + expr + ", " + expr + "] | [@[0], to_array(@[1]), reverse(@)]"
			case 0:
				expr = "[" + expr + ", `[]`[*], `{}`.*]"
			case 1:
				expr = "{r: " + expr + "}"
			case 2:
				expr = "[*]." + expr
			case 3:
				expr = expr + " | [@, to_array(@), not_null(@, `[]`)]"
			}
		} else {
			f := fragAll
			f.mismatch = 8
			expr = genExpr(t, doc, f)
		}
		run(t, Case{Property: "C16", Kind: "jsondata", Expr: expr, Doc: ref.Canon(doc)})
	})
}

// ---------------------------------------------------------------------------
// C15

// sameModuloOrder compares two library results; want (the reference value of
// the composed expression) tells where member order is unspecified.
func sameModuloOrder(a, b, want interface{}) bool {
	if ref.HasSpecial(want) {
		return ref.Matches(a, want) && ref.Matches(b, want)
	}
	return reflect.DeepEqual(a, b)
}

// predPipe: Search("(A) | (B)", d) == Search(B, Search(A, d)); Extra = {b}.
// withoutNonFinite copies v with every NaN and infinity replaced by a string, and says whether there was one.
func withoutNonFinite(v interface{}, depth int) (interface{}, bool) {
	if depth > 20000 {
		return v, false
	}
	switch t := v.(type) {
	case float64:
		if math.IsNaN(t) || math.IsInf(t, 0) {
			return "non-finite", true
		}
	case []interface{}:
		if t == nil {
			return v, false
		}
		out, any := make([]interface{}, len(t)), false
		for i, e := range t {
			var r bool
			out[i], r = withoutNonFinite(e, depth+1)
			any = any || r
		}
		return out, any
	case map[string]interface{}:
		if t == nil {
			return v, false
		}
		out, any := make(map[string]interface{}, len(t)), false
		for k, e := range t {
			var r bool
			out[k], r = withoutNonFinite(e, depth+1)
			any = any || r
		}
		return out, any
	}
	return v, false
}

func predPipe(c Case) (r Result) {
	a := c.expr()
	b := c.Extra["b"].(string)
	composed := "(" + a + ") | (" + b + ")"
	n, st, perr := ref.ParseText(composed)
	if perr != nil || st != ref.LexOK {
		r.Discard = "generator:not-a-sentence"
		return
	}
	doc := mustJSON(c.Doc)
	ev := &ref.Ev{}
	want, werr := ev.Eval(n, ref.DeepCopy(doc))
	whole := libSearch(composed, ref.DeepCopy(doc))
	step1 := libSearch(a, ref.DeepCopy(doc))
	if whole.Panic != nil || step1.Panic != nil {
		r.Violation = "Search panicked"
		r.Got = showOut(whole) + " / " + showOut(step1)
		return
	}
	var step2 libOut
	nonFinite := false
	if step1.Err == nil {
		if !isJSONData(step1.Val) {
			// an intermediate value that is JSON data but for numbers that left the float64 range
			// (an overflowing sum): the specification has no such number, so there is no reference
			// value - but the law itself compares the library with the library, and holds
			if fc, replaced := withoutNonFinite(step1.Val, 0); !replaced || !isJSONData(fc) || strings.ContainsAny(a+b, "*") || strings.Contains(a+b, "keys(") || strings.Contains(a+b, "values(") {
				r.Discard = "precondition:intermediate-not-json"
				return
			}
			nonFinite = true
		}
		step2 = libSearch(b, step1.Val)
		if step2.Panic != nil {
			r.Violation = "Search panicked on the intermediate value"
			r.Got = showOut(step2)
			return
		}
	}
	if !nonFinite && ev.Ambiguous && strings.HasPrefix(ev.Why, "arithmetic overflow") && !strings.ContainsAny(a+b, "*") && !strings.Contains(a+b, "keys(") && !strings.Contains(a+b, "values(") {
		// the same where the number beyond the float64 range arises and disappears inside A
		nonFinite = true
	}
	if nonFinite {
		r.class("pipe.non-finite-intermediate")
		r.Nontrivial = true
		if (whole.Err != nil) != (step2.Err != nil) {
			r.Violation = "'A | B' is an error exactly when one of the two steps is: violated (A yields a number beyond the float64 range)"
			r.Expected, r.Got = fmt.Sprintf("split: step1=%s step2=%s", showOut(step1), showOut(step2)), "composed: "+showOut(whole)
			return
		}
		if whole.Err == nil && show(whole.Val) != show(step2.Val) {
			r.Violation = "Search('A | B', d) differs from Search(B, Search(A, d)) (A yields a number beyond the float64 range)"
			r.Expected, r.Got = "split: "+show(step2.Val), "composed: "+show(whole.Val)
		}
		return
	}
	if ev.Ambiguous {
		r.Discard = "ambiguous:" + ev.Why
		return
	}
	splitErr := step1.Err != nil || step2.Err != nil
	if (whole.Err != nil) != splitErr {
		r.Violation = "'A | B' is an error exactly when one of the two steps is: violated"
		r.Expected, r.Got = fmt.Sprintf("split: step1=%s step2=%s", showOut(step1), showOut(step2)), "composed: "+showOut(whole)
		return
	}
	_ = werr
	if whole.Err == nil {
		if !sameModuloOrder(whole.Val, step2.Val, want) {
			r.Violation = "Search('A | B', d) differs from Search(B, Search(A, d))"
			r.Expected, r.Got = "split: "+show(step2.Val), "composed: "+show(whole.Val)
			return
		}
		// non-trivial: A is not the identity, its result is non-null, B depends on it
		if step1.Val != nil && strings.TrimSpace(a) != "@" && !strings.HasPrefix(strings.TrimSpace(b), "`") && !strings.HasPrefix(strings.TrimSpace(b), "'") {
			r.Nontrivial = true
		}
		r.class("pipe.value")
	} else {
		r.class("pipe.error")
	}
	// the same pipe evaluated once per element of an array of documents (same shape, other
	// values; null; the document again): element i must get Search(B, Search(A, d_i)), and the
	// whole is an error exactly when some element's pipe is. (An implementation that decides
	// something about a pipe at its first evaluation and reuses it for the next element.)
	docs := []interface{}{ref.DeepCopy(doc), varyDoc(doc, 2), nil, varyDoc(doc, 4), []interface{}{}, ref.DeepCopy(doc)}
	per := "map(&(" + composed + "), @)"
	wantAll := make([]interface{}, 0, len(docs))
	perErr := false
	for _, d := range docs {
		s1 := libSearch(a, ref.DeepCopy(d))
		if s1.Panic != nil || (s1.Err == nil && !isJSONData(s1.Val)) {
			return
		}
		if s1.Err != nil {
			perErr = true
			break
		}
		s2 := libSearch(b, s1.Val)
		if s2.Panic != nil {
			return
		}
		if s2.Err != nil {
			perErr = true
			break
		}
		wantAll = append(wantAll, s2.Val)
	}
	if pn, pst, pe := ref.ParseText(per); pe == nil && pst == ref.LexOK {
		pev := &ref.Ev{}
		pw, _ := pev.Eval(pn, ref.DeepCopy(docs))
		if pev.Ambiguous {
			return
		}
		got := libSearch(per, ref.DeepCopy(docs))
		if got.Panic != nil {
			r.Violation = "Search panicked on the per-element pipe"
			r.Got = showOut(got)
			return
		}
		if (got.Err != nil) != perErr {
			r.Violation = "a pipe evaluated once per element is an error exactly when the pipe of some element is: violated"
			r.Expected, r.Got = fmt.Sprintf("error: %v", perErr), showOut(got)
			return
		}
		if got.Err == nil && !sameModuloOrder(got.Val, wantAll, pw) {
			r.Violation = "a pipe evaluated once per element differs from Search(B, Search(A, element))"
			r.Expected, r.Got = show(wantAll), show(got.Val)
			return
		}
		r.class("pipe.per-element")
	}
	return
}

// root-evaluated contexts for referential transparency
var rootCtx = []string{"%s", "%s | [@, @]", "%s || `0`", "`[]` || %s", "%s && `1`", "[%s, @]", "{k: %s, j: a}", "not_null(%s, `1`)", "to_array(%s)",
	"%s.a", "%s[0]", "%s[*].a", "!%s", "%s == a", "a != %s", "(%s)", "%s[]", "%s[?@]", "%s[1:]", "type(%s)", "[%s][0]", "%s.*", "length(to_array(%s))",
	"sort_by(to_array(%s), &to_string(@))", "[a, %s].b", "merge({x: %s}, {y: %s})",
	// a repeated key: whichever member wins, the rule cannot depend on how a member is written
	"{k: %s, k: a}", "{k: a, k: %s}", "{k: %s, k: `1`}", "{k: `1`, k: %s}", "{k: %s, j: a, k: b}.k",
	// the hole in a branch that is never evaluated (an implementation that judges literal arguments early)
	"`1` || abs(%s)", "`false` && abs(%s)", "`1` || length(%s)", "`[]` && join(%s, %s)", "[`1` || abs(%s), `null` && sum(%s)]", "not_null(`1`, abs(%s))"}

// predSubst: Search(C[S], d) == Search(C[literal(Search(S, d))], d); Extra = {ctx}.
func predSubst(c Case) (r Result) {
	s := c.expr()
	ctx := c.Extra["ctx"].(string)
	doc := mustJSON(c.Doc)
	whole := strings.Replace(ctx, "%s", "("+s+")", -1)
	n, st, perr := ref.ParseText(whole)
	if perr != nil || st != ref.LexOK {
		r.Discard = "generator:not-a-sentence"
		return
	}
	sv := libSearch(s, ref.DeepCopy(doc))
	if sv.Panic != nil {
		r.Violation = "Search panicked"
		r.Got = showOut(sv)
		return
	}
	if sv.Err != nil {
		r.Discard = "sub-expression-errors"
		return
	}
	if !isJSONData(sv.Val) {
		r.Discard = "precondition:sub-value-not-json"
		return
	}
	ev := &ref.Ev{}
	want, _ := ev.Eval(n, ref.DeepCopy(doc))
	substituted := strings.Replace(ctx, "%s", ref.SpellLiteral(sv.Val), -1)
	o1 := libSearch(whole, ref.DeepCopy(doc))
	o2 := libSearch(substituted, ref.DeepCopy(doc))
	if o1.Panic != nil || o2.Panic != nil {
		r.Violation = "Search panicked"
		r.Got = showOut(o1) + " / " + showOut(o2)
		return
	}
	if ev.Ambiguous {
		r.Discard = "ambiguous:" + ev.Why
		return
	}
	if (o1.Err != nil) != (o2.Err != nil) {
		r.Violation = "replacing a root-evaluated sub-expression by a literal of its value changes error presence"
		r.Expected, r.Got = substituted+" => "+showOut(o2), whole+" => "+showOut(o1)
		return
	}
	if o1.Err == nil && !sameModuloOrder(o1.Val, o2.Val, want) {
		r.Violation = "replacing a root-evaluated sub-expression by a literal of its value changes the result"
		r.Expected, r.Got = substituted+" => "+show(o2.Val), whole+" => "+show(o1.Val)
		return
	}
	// the same without the parentheses this check puts around the sub-expression, wherever they
	// are redundant (the reference parser builds the same tree): an implementation that
	// recognises an idiom by its spelling, C[X], sees it only then
	bare := strings.Replace(ctx, "%s", s, -1)
	if nb, stb, eb := ref.ParseText(bare); eb == nil && stb == ref.LexOK && ref.Dump(nb) == ref.Dump(n) {
		o3 := libSearch(bare, ref.DeepCopy(doc))
		if o3.Panic != nil {
			r.Violation = "Search panicked"
			r.Got = showOut(o3)
			return
		}
		if (o3.Err != nil) != (o2.Err != nil) || (o3.Err == nil && !sameModuloOrder(o3.Val, o2.Val, want)) {
			r.Violation = "replacing a root-evaluated sub-expression by a literal of its value changes the result (sub-expression written without redundant parentheses)"
			r.Expected, r.Got = substituted+" => "+showOut(o2), bare+" => "+showOut(o3)
			return
		}
	}
	if _, isLit := mustNode(s); !isLit {
		r.Nontrivial = true
	}
	return
}

func mustNode(s string) (*ref.Node, bool) {
	n, _, err := ref.ParseText(s)
	if err != nil {
		return nil, false
	}
	return n, n.T == "Literal"
}

func TestC15Pipe(t *testing.T) {
	rapid.Check(t, func(t *rapid.T) {
		doc := genDoc(t)
		g := &exprGen{t: t, f: fragAll}
		g.f.mismatch = 8
		a := g.expr(doc, 1)
		av := evalLex(a, doc)
		b := g.expr(av, 1)
		c := Case{Property: "C15", Kind: "pipe", Expr: renderRandom(t, a), Doc: ref.Canon(doc), Extra: map[string]interface{}{"b": renderRandom(t, b)}}
		run(t, c)
	})
}

func TestC15Subst(t *testing.T) {
	rapid.Check(t, func(t *rapid.T) {
		doc := genDoc(t)
		g := &exprGen{t: t, f: fragAll}
		g.f.mismatch = 8
		s := g.expr(doc, 1)
		ctx := rootCtx[rapid.IntRange(0, len(rootCtx)-1).Draw(t, "ctx")]
		run(t, Case{Property: "C15", Kind: "subst", Expr: ref.RenderSpaced(s), Doc: ref.Canon(doc), Extra: map[string]interface{}{"ctx": ctx}})
	})
}

package harness

// Known-finding classifiers (DESIGN.md section 6). A classifier is a precise,
// root-cause-specific predicate over a failing case. It is consulted only when
// the finding is listed as "open:" in /verif/KNOWN_FINDINGS.txt (the driver
// passes the active ids in VERIF_KF).

import (
	"bufio"
	"encoding/json"
	"fmt"
	"os"
	"path/filepath"
	"regexp"
	"strings"
	"testing"

	"verifharness/ref"
)

// classifyAcceptedNonSentence explains why the library accepts a token sequence
// that the strict grammar rejects, if an open finding does. Returns the finding
// id ("" when unexplained).
func classifyAcceptedNonSentence(toks []ref.Token) string {
	try := func(l ref.Lax) (bool, ref.Lax) {
		_, used, err := ref.ParseLax(toks, l)
		return err == nil, used
	}
	if kfActive("KF-P6") {
		if ok, used := try(ref.Lax{ExprefAnywhere: true}); ok && used.ExprefAnywhere {
			return "KF-P6"
		}
	}
	if kfActive("KF-P7") {
		if ok, used := try(ref.Lax{MultiSelectAfterProjection: true}); ok && used.MultiSelectAfterProjection {
			return "KF-P7"
		}
	}
	if kfActive("KF-P6") && kfActive("KF-P7") {
		if ok, used := try(ref.Lax{ExprefAnywhere: true, MultiSelectAfterProjection: true}); ok && used.ExprefAnywhere && used.MultiSelectAfterProjection {
			return "KF-P6+KF-P7"
		}
	}
	return ""
}

type knownFinding struct {
	Property, ID, Classifier, Example, What string
}

var openLineRE = regexp.MustCompile(`^open:\s+property=(\S+)\s+id=(\S+)\s+classifier=(\S+)\s+example=(\S+)\s+(.*)$`)

func readKnownFindings() ([]knownFinding, error) {
	dir := os.Getenv("VERIF_HARNESS_DIR")
	if dir == "" {
		dir = "."
	}
	f, err := os.Open(filepath.Join(dir, "..", "KNOWN_FINDINGS.txt"))
	if err != nil {
		return nil, err
	}
	defer f.Close()
	var out []knownFinding
	sc := bufio.NewScanner(f)
	sc.Buffer(make([]byte, 1<<20), 1<<20)
	for sc.Scan() {
		line := sc.Text()
		if !strings.HasPrefix(line, "open:") {
			continue
		}
		m := openLineRE.FindStringSubmatch(line)
		if m == nil {
			return nil, fmt.Errorf("unparsable line: %s", line)
		}
		var ex string
		if err := json.Unmarshal([]byte(m[4]), &ex); err != nil {
			return nil, fmt.Errorf("bad example in line: %s", line)
		}
		out = append(out, knownFinding{m[1], m[2], m[3], ex, m[5]})
	}
	return out, nil
}

// reproducers decide whether the pinned example of a finding still fails.
var reproducers = map[string]func(example string) bool{
	"expref_outside_args": func(ex string) bool {
		toks, st, _ := ref.Lex(ex)
		if st != ref.LexOK {
			return false
		}
		if _, err := ref.Parse(toks); err == nil {
			return false
		}
		c, err, pan := libCompile(ex)
		return pan == nil && err == nil && c != nil && classifyAcceptedNonSentence(toks) == "KF-P6"
	},
	"multiselect_after_projection": func(ex string) bool {
		toks, st, _ := ref.Lex(ex)
		if st != ref.LexOK {
			return false
		}
		if _, err := ref.Parse(toks); err == nil {
			return false
		}
		c, err, pan := libCompile(ex)
		return pan == nil && err == nil && c != nil && classifyAcceptedNonSentence(toks) == "KF-P7"
	},
}

// TestKnownFindings executes the pinned example of every open finding and
// prints one line per finding that still reproduces.
func TestKnownFindings(t *testing.T) {
	kfs, err := readKnownFindings()
	if err != nil {
		t.Fatalf("HARNESS-ERROR: %v", err)
	}
	for _, k := range kfs {
		rep, ok := reproducers[k.Classifier]
		if !ok {
			t.Fatalf("HARNESS-ERROR: no classifier %q for finding %s", k.Classifier, k.ID)
		}
		if rep(k.Example) {
			fmt.Printf("KF-REPRODUCES id=%s property=%s example=%q\n", k.ID, k.Property, k.Example)
		} else {
			fmt.Printf("KF-GONE id=%s property=%s example=%q\n", k.ID, k.Property, k.Example)
		}
	}
}

package harness

// C03 and C04: the language accepted by Compile and the structure of parses.
//
//	"lang"  predicate: Compile accepts the text iff it is a sentence of the grammar
//	        (CFG recogniser); sentences additionally evaluate like the reference model.
//	"parse" predicate: the library's AST of a sentence equals the reference parse
//	        (structural dump), and the minimal / conservative / decorated spellings
//	        all have the same library AST.

import (
	"fmt"
	"os"
	"strings"
	"testing"
	"unicode"

	jp "github.com/jmespath/go-jmespath"
	"pgregory.net/rapid"

	"verifharness/ref"
)

func init() {
	predicates["lang"] = predLang
	predicates["parse"] = predParse
}

// A fixed document on which sentences over the enumeration alphabet do something.
const enumDocText = `{"a":{"a":[{"a":1,"q":"x"},{"a":[2,3],"q":null},[4,[5]],0],"q":{"a":"r","q":[1,2]}},"q":[[1,{"a":2}],[],"r",null,{"q":{"a":0}}]}`

func libDump(expr string) (dump string, err error, pan interface{}) {
	pan = safely(func() {
		var n jp.ASTNode
		n, err = jp.NewParser().Parse(expr)
		if err == nil {
			dump = jp.VerifDumpAST(n)
		}
	})
	if pan != nil {
		return
	}
	// a Parser object is reusable: the one shared by the whole process must say the same
	// as a fresh one; when it does not, its answer is the one judged
	n2, err2, pan2 := sharedParse(expr)
	if pan2 != nil {
		return "", nil, pan2
	}
	dump2 := ""
	if err2 == nil {
		dump2 = jp.VerifDumpAST(n2)
	}
	if (err2 == nil) != (err == nil) || dump2 != dump {
		return dump2, err2, nil
	}
	if err2 == nil {
		// the tree belongs to the caller now: it must still say the same after the Parser has
		// parsed other expressions (shorter, longer, failing)
		for _, other := range []string{"(x && y) || z == w", "a.b.c | d.e", "!a", "x[?y < z || w].v | [0]", "a ||"} {
			_, _, _ = sharedParse(other)
		}
		var again string
		if pan3 := safely(func() { again = jp.VerifDumpAST(n2) }); pan3 != nil {
			return "", nil, pan3
		}
		if again != dump {
			return again, nil, nil
		}
	}
	return
}

// langVerdict compares Compile's verdict with the grammar. It returns the
// token list (when lexable) and whether the text is a sentence.
func predLang(c Case) (r Result) {
	toks, st, why := ref.Lex(c.Expr)
	comp, cerr, pan := libCompile(c.Expr)
	if pan != nil {
		r.Violation = "Compile panicked"
		r.Got = fmt.Sprint(pan)
		return
	}
	if (comp == nil) == (cerr == nil) {
		r.Violation = "Compile returned neither or both of (expression, error)"
		return
	}
	accepted := cerr == nil
	if _, serr, span := sharedParse(c.Expr); span != nil || (serr == nil) != accepted {
		// a reused Parser decides differently from Compile: judge its verdict
		if span != nil {
			r.Violation = "a reused Parser panicked"
			r.Got = fmt.Sprint(span)
			return
		}
		accepted, cerr = serr == nil, serr
		r.class("reused-parser-differs")
	}
	if !accepted && !strings.ContainsRune(c.Expr, 0) {
		// the one-shot entry point decides alike, also on a document that happens to have the
		// whole text as a key (a short cut that looks the text up before parsing it)
		var sv interface{}
		var serr error
		if span := safely(func() {
			sv, serr = jp.Search(c.Expr, map[string]interface{}{c.Expr: 1.0, strings.TrimSpace(c.Expr): 2.0, "a": map[string]interface{}{c.Expr: 3.0}})
		}); span == nil && serr == nil {
			accepted = true
			r.class("one-shot-search-differs")
			_ = sv
		}
	}
	switch st {
	case ref.LexOutOfDomain:
		r.Discard = "out-of-domain:" + why
		return
	case ref.LexError:
		r.class("lex-error")
		r.Nontrivial = true
		if accepted {
			r.Violation = "Compile accepts a text that is not a sequence of JMESPath tokens (" + why + ")"
			r.Expected, r.Got = "compile error", "compiled"
		}
		return
	}
	kinds := ref.Kinds(toks)
	sentence := ref.IsSentence(kinds)
	_, perr := ref.Parse(toks)
	if sentence != (perr == nil) {
		r.Discard = "HARNESS:cfg-vs-pratt-disagree"
		r.Violation = "HARNESS-ERROR: reference CFG and reference Pratt parser disagree"
		return
	}
	if v, ok := c.Extra["nearmiss"]; ok && v == true {
		r.Nontrivial = true
	}
	if sentence {
		r.class("sentence")
		r.Nontrivial = true
		if !accepted {
			r.Violation = "Compile rejects a sentence of the grammar"
			r.Expected, r.Got = "compiles", "error: "+cerr.Error()
			return
		}
		// a compiled sentence must evaluate like the reference model (no
		// "compiled into something broken").
		for _, d := range []string{"null", enumDocText} {
			dr := predDiff(Case{Property: "C05", Kind: "diff", Expr: c.Expr, Doc: d})
			if dr.Violation != "" {
				r.Violation = "sentence compiles but misbehaves when searched on " + d + ": " + dr.Violation
				r.Expected, r.Got = dr.Expected, dr.Got
				return
			}
		}
		return
	}
	r.class("non-sentence")
	if accepted {
		if id := classifyAcceptedNonSentence(toks); id != "" {
			r.Known = id
			r.Violation = "Compile accepts a non-sentence (explained by known finding " + id + ")"
			return
		}
		r.Nontrivial = true
		r.Violation = "Compile accepts a text that is not a sentence of the grammar"
		r.Expected, r.Got = "compile error", "compiled"
	}
	return
}

func predParse(c Case) (r Result) {
	toks, st, _ := ref.Lex(c.Expr)
	if st != ref.LexOK {
		r.Discard = "generator:not-lexable"
		return
	}
	n, perr := ref.Parse(toks)
	if perr != nil {
		r.Discard = "generator:not-a-sentence"
		return
	}
	want := ref.Dump(n)
	got, err, pan := libDump(c.Expr)
	if pan != nil {
		r.Violation = "Parse panicked"
		r.Got = fmt.Sprint(pan)
		return
	}
	if err != nil {
		r.Violation = "Parse rejects a sentence"
		r.Got = err.Error()
		return
	}
	r.Nontrivial = true
	if got != want {
		r.Violation = "the library groups the expression differently from the JMESPath precedence rules"
		r.Expected, r.Got = want, got
		return
	}
	// white space before the first and after the last token is as insignificant as between tokens
	for _, ws := range []string{" ", "\t", "\n", "\r\n "} {
		for _, text := range []string{c.Expr + ws, ws + c.Expr, ws + c.Expr + ws} {
			g2, e2, p2 := libDump(text)
			if p2 != nil || e2 != nil || g2 != want {
				r.Violation = "white space around the expression changes how it is parsed"
				r.Expected, r.Got = want, fmt.Sprint(g2, e2, p2)
				return
			}
		}
	}
	// metamorphic layer: every alternative spelling has the same library AST
	if alts, ok := c.Extra["alts"].([]interface{}); ok {
		for _, a := range alts {
			s, _ := a.(string)
			an, _, aerr := ref.ParseText(s)
			if aerr != nil || ref.Dump(an) != want {
				r.Discard = "HARNESS:spelling-not-equivalent"
				r.Violation = "HARNESS-ERROR: alternative spelling " + s + " is not equivalent under the reference parser"
				return
			}
			g2, err2, pan2 := libDump(s)
			if pan2 != nil || err2 != nil {
				r.Violation = "an equivalent spelling with redundant parentheses/whitespace is rejected: " + s
				r.Got = fmt.Sprint(err2, pan2)
				return
			}
			if g2 != got {
				r.Violation = "adding redundant parentheses or whitespace changes the parse: " + s
				r.Expected, r.Got = got, g2
				return
			}
		}
		r.class("spellings")
	}
	return
}

// ---------------------------------------------------------------------------
// Exhaustive enumeration of token sequences

type enumerator struct {
	alpha  []ref.Token
	maxLen int
	rec    ref.Recognizer
}

func encodeSeq(idx []int) uint64 {
	var c uint64
	for i, k := range idx {
		c |= uint64(k+1) << (5 * uint(i))
	}
	return c
}

// sentenceSets enumerates all sentences up to length n (codes by length).
func (e *enumerator) sentenceSets(n int) []map[uint64]struct{} {
	sets := make([]map[uint64]struct{}, n+2)
	for i := range sets {
		sets[i] = map[uint64]struct{}{}
	}
	idx := make([]int, 0, n)
	kinds := make([]ref.Kind, 0, n)
	var walk func()
	walk = func() {
		if len(idx) > 0 && e.rec.IsSentence(kinds) {
			sets[len(idx)][encodeSeq(idx)] = struct{}{}
		}
		if len(idx) == n {
			return
		}
		for a := range e.alpha {
			idx = append(idx, a)
			kinds = append(kinds, e.alpha[a].Kind)
			walk()
			idx = idx[:len(idx)-1]
			kinds = kinds[:len(kinds)-1]
		}
	}
	walk()
	return sets
}

// nearMiss: one token deletion or replacement makes it a sentence (looked up
// in the precomputed sentence sets; only for lengths covered by them).
func nearMiss(idx []int, sets []map[uint64]struct{}, nalpha int) bool {
	n := len(idx)
	if n-1 >= 1 && n-1 < len(sets) {
		tmp := make([]int, 0, n-1)
		for d := 0; d < n; d++ {
			tmp = tmp[:0]
			tmp = append(tmp, idx[:d]...)
			tmp = append(tmp, idx[d+1:]...)
			if _, ok := sets[n-1][encodeSeq(tmp)]; ok {
				return true
			}
		}
	}
	if n < len(sets) && len(sets[n]) > 0 {
		tmp := append([]int{}, idx...)
		for p := 0; p < n; p++ {
			orig := tmp[p]
			for a := 0; a < nalpha; a++ {
				if a == orig {
					continue
				}
				tmp[p] = a
				if _, ok := sets[n][encodeSeq(tmp)]; ok {
					return true
				}
			}
			tmp[p] = orig
		}
	}
	return false
}

func enumLen(def int) int { return envInt("VERIF_ENUM_LEN", def) }

// TestC04Enum: every token sequence up to the bound: Compile accepts iff sentence.
func TestC04Enum(t *testing.T) {
	maxLen := enumLen(4)
	shard, nshards := envInt("VERIF_SHARD", 0), envInt("VERIF_NSHARDS", 1)
	e := &enumerator{alpha: ref.EnumAlphabet(), maxLen: maxLen}
	setLen := maxLen
	if setLen > 5 {
		setLen = 5
	}
	sets := e.sentenceSets(setLen)
	st := statsFor("C04")
	idx := make([]int, 0, maxLen)
	toks := make([]ref.Token, 0, maxLen)
	kinds := make([]ref.Kind, 0, maxLen)
	texts := make([]string, 0, maxLen)
	var total, nSent, nNear, nKnown int64
	known := map[string]int64{}
	var walk func()
	walk = func() {
		if len(idx) > 0 {
			total++
			text := strings.Join(texts, " ")
			sentence := e.rec.IsSentence(kinds)
			comp, cerr, pan := libCompile(text)
			accepted := cerr == nil && comp != nil
			if pan != nil || sentence != accepted || sentence {
				// slow path through the full predicate (classification, evaluation)
				c := Case{Property: "C04", Kind: "lang", Expr: text}
				r := predLang(c)
				if r.Known != "" {
					nKnown++
					known[r.Known]++
				} else if r.Violation != "" {
					statsFor("C04").Record(c, r)
					c.Note, c.Expected, c.Got = r.Violation, r.Expected, r.Got
					p := writeReplay(c)
					t.Fatalf("VIOLATION-CASE file=%s expr=%q: %s", p, text, r.Violation)
				}
			}
			if sentence {
				nSent++
				st.RecordKey(text, true, func() interface{} { return map[string]string{"expr": text, "class": "sentence"} }, "sentence")
			} else if len(idx) <= setLen && nearMiss(idx, sets, len(e.alpha)) {
				nNear++
				st.RecordKey(text, true, func() interface{} { return map[string]string{"expr": text, "class": "near-miss non-sentence"} }, "near-miss")
			} else {
				st.RecordKey(text, false, nil, "far-non-sentence")
			}
		}
		if len(idx) == maxLen {
			return
		}
		for a := range e.alpha {
			if len(idx) == 0 && a%nshards != shard {
				continue
			}
			idx = append(idx, a)
			toks = append(toks, e.alpha[a])
			kinds = append(kinds, e.alpha[a].Kind)
			texts = append(texts, e.alpha[a].Text)
			walk()
			idx = idx[:len(idx)-1]
			toks = toks[:len(toks)-1]
			kinds = kinds[:len(kinds)-1]
			texts = texts[:len(texts)-1]
		}
	}
	walk()
	st.mu.Lock()
	for k, v := range known {
		st.Known[k] += v
	}
	st.Exhaustive["C04.token-sequences"] = fmt.Sprintf("all sequences over the 25-symbol token alphabet of length <= %d (shard %d/%d: %d sequences, %d sentences, %d near-miss, %d explained by known findings)", maxLen, shard, nshards, total, nSent, nNear, nKnown)
	st.mu.Unlock()
}

// variant lexemes substituted per token class in the second pass.
var lexemeVariants = map[ref.Kind][]string{
	ref.TUnquoted: {"b", "_", "a1", "null", "true", "and", "length", "abs", "Z_9"},
	ref.TQuoted:   {`""`, `"a b"`, `"é"`, `"a"`, `"\u0041"`, `"\""`},
	ref.TNumber:   {"1", "-1", "12", "-0", "007", "08", "-09", "0019", "000", "0000000000000000000", "-00000000000000000000", "00000000000000000001", "000000000000000000000000000007", "9223372036854775807", "-9223372036854775808"},
	ref.TLiteral:  {"`\"s\"`", "`[1]`", "`{\"a\":1}`", "`null`", "` 1 `", "`\"\\`\"`"},
	ref.TRaw:      {"''", `'a\'b'`, `'\\'`, "'é'"},
	ref.TCmp:      {"!=", "<=", ">", ">=", "==", "<"},
}

// TestC04Variants: for every sentence (and every near-miss it is checked
// against) up to the bound, substitute other lexemes of the same classes and
// other whitespace renderings: the verdict must not change.
func TestC04Variants(t *testing.T) {
	maxLen := enumLen(4)
	shard, nshards := envInt("VERIF_SHARD", 0), envInt("VERIF_NSHARDS", 1)
	e := &enumerator{alpha: ref.EnumAlphabet(), maxLen: maxLen}
	sets := e.sentenceSets(maxLen)
	st := statsFor("C04")
	n := 0
	for L := 1; L <= maxLen; L++ {
		for code := range sets[L] {
			if int(code%uint64(nshards)) != shard {
				continue
			}
			idx := make([]int, L)
			for i := 0; i < L; i++ {
				idx[i] = int((code>>(5*uint(i)))&31) - 1
			}
			for v := 0; v < 4; v++ {
				lex := make([]string, L)
				for i, a := range idx {
					tk := e.alpha[a]
					lex[i] = tk.Text
					if vs, ok := lexemeVariants[tk.Kind]; ok {
						lex[i] = vs[(v*7+i*3+int(code%11))%len(vs)]
					}
				}
				var text string
				switch v % 3 {
				case 0:
					text = ref.RenderTight(lex)
				case 1:
					text = ref.RenderSpaced(lex)
				default:
					text = ref.Render(lex, func(i int) string { return []string{"\t", "\n", " \r\n ", ""}[(i+v)%4] })
				}
				run(t, Case{Property: "C04", Kind: "lang", Expr: text})
				n++
			}
		}
	}
	st.mu.Lock()
	st.Exhaustive["C04.variants"] = fmt.Sprintf("4 lexeme/whitespace variants of every sentence of length <= %d (shard %d/%d: %d texts)", maxLen, shard, nshards, n)
	st.mu.Unlock()
}

// ---------------------------------------------------------------------------
// Random sentences from the CFG (G-cfg) and near-miss mutants (G-mut)

type cfgGen struct {
	t      *rapid.T
	budget int
}

func (g *cfgGen) n(max int, label string) int { return uni(g.t, max, label) }

var cfgIdents = []string{"a", "b", "c", "foo", "_", "x1", `"q"`, `""`, `"a b"`, `"é"`, "abs", "length", "sort_by", "not_null"}
var cfgFuncs = []string{"abs", "length", "sort_by", "not_null", "foo", "map", "merge", "to_string", "max_by", "keys"}
var cfgLits = []string{"`1`", "`\"s\"`", "`[1,2]`", "`{\"a\":1}`", "`null`", "`true`", "`[]`", "'r'", "''", `'a\'b'`}
var cfgNums = []string{"0", "1", "-1", "2", "-2", "10", "08", "-09", "007", "00", "0000000000000000000", "-00000000000000000000", "00000000000000000002", "9223372036854775807", "-9223372036854775808"}

func (g *cfgGen) ident() string { return cfgIdents[g.n(len(cfgIdents), "ident")] }

func (g *cfgGen) expr(depth int) []string {
	g.budget--
	if depth > 5 || g.budget <= 0 {
		return g.leaf()
	}
	switch g.n(20, "prod") {
	case 0, 1:
		return g.leaf()
	case 2, 3, 4:
		return join(g.expr(depth+1), []string{"."}, g.subRHS(depth+1))
	case 5, 6, 7:
		return join(g.expr(depth+1), g.bracket(depth+1))
	case 8:
		return g.bracket(depth + 1)
	case 9:
		return join(g.expr(depth+1), []string{cmpOps[g.n(6, "cmp")]}, g.expr(depth+1))
	case 10:
		return join(g.expr(depth+1), []string{"||"}, g.expr(depth+1))
	case 11:
		return join(g.expr(depth+1), []string{"&&"}, g.expr(depth+1))
	case 12:
		return join(g.expr(depth+1), []string{"|"}, g.expr(depth+1))
	case 13, 14:
		return join([]string{"!"}, g.expr(depth+1))
	case 15:
		return join([]string{"("}, g.expr(depth+1), []string{")"})
	case 16:
		return g.list(depth + 1)
	case 17:
		return g.hash(depth + 1)
	case 18:
		return g.fn(depth + 1)
	default:
		return []string{"*"}
	}
}

func (g *cfgGen) leaf() []string {
	switch g.n(8, "leaf") {
	case 0, 1, 2:
		return []string{g.ident()}
	case 3:
		return []string{"@"}
	case 4:
		return []string{"*"}
	case 5:
		return []string{"[]"}
	default:
		return []string{cfgLits[g.n(len(cfgLits), "lit")]}
	}
}

func (g *cfgGen) subRHS(depth int) []string {
	switch g.n(8, "subrhs") {
	case 0, 1, 2, 3:
		return []string{g.ident()}
	case 4:
		return g.list(depth)
	case 5:
		return g.hash(depth)
	case 6:
		return g.fn(depth)
	default:
		return []string{"*"}
	}
}

func (g *cfgGen) bracket(depth int) []string {
	switch g.n(8, "bs") {
	case 0, 1:
		return []string{"[", cfgNums[g.n(len(cfgNums), "num")], "]"}
	case 2:
		return []string{"[", "*", "]"}
	case 3, 4:
		out := []string{"["}
		colons := 1 + g.n(2, "colons")
		for i := 0; i <= colons; i++ {
			if i > 0 {
				out = append(out, ":")
			}
			if g.n(2, "hasnum") == 0 {
				out = append(out, cfgNums[g.n(len(cfgNums), "slnum")])
			}
		}
		return append(out, "]")
	case 5:
		return []string{"[]"}
	default:
		return join([]string{"[?"}, g.expr(depth+1), []string{"]"})
	}
}

func (g *cfgGen) list(depth int) []string {
	out := []string{"["}
	n := 1 + g.n(3, "listn")
	for i := 0; i < n; i++ {
		if i > 0 {
			out = append(out, ",")
		}
		out = append(out, g.expr(depth+1)...)
	}
	return append(out, "]")
}

func (g *cfgGen) hash(depth int) []string {
	out := []string{"{"}
	n := 1 + g.n(3, "hashn")
	for i := 0; i < n; i++ {
		if i > 0 {
			out = append(out, ",")
		}
		out = append(out, fmt.Sprintf("k%d", i), ":")
		if g.n(4, "quotedKey") == 0 {
			out[len(out)-2] = fmt.Sprintf(`"k %d"`, i)
		}
		out = append(out, g.expr(depth+1)...)
	}
	return append(out, "}")
}

func (g *cfgGen) fn(depth int) []string {
	out := []string{cfgFuncs[g.n(len(cfgFuncs), "fname")], "("}
	n := g.n(4, "nargs")
	for i := 0; i < n; i++ {
		if i > 0 {
			out = append(out, ",")
		}
		if g.n(4, "expref") == 0 {
			out = append(out, "&")
		}
		out = append(out, g.expr(depth+1)...)
	}
	return append(out, ")")
}

func genSentence(t *rapid.T, budget int) []string {
	g := &cfgGen{t: t, budget: budget}
	return g.expr(0)
}

var mutTokens = []string{"a", `"q"`, "0", "*", ".", "[", "]", "[]", "[?", "(", ")", "{", "}", ",", ":", "==", "<", "||", "&&", "|", "!", "&", "@", "`1`", "'r'", "=", "!=", ">=", "-"}

// mutate applies one or two token edits.
func mutate(t *rapid.T, lex []string) []string {
	out := append([]string{}, lex...)
	edits := 1 + rapid.IntRange(0, 1).Draw(t, "edits")
	for e := 0; e < edits && len(out) > 0; e++ {
		p := uni(t, len(out), "mutPos")
		switch uni(t, 7, "mutKind") {
		case 6: // drop one character of a token written with several (== -> =, && -> &, [? -> [ or ?, ...; not the quoted tokens, whose halves would not stay tokens under re-spacing)
			for q := 0; q < len(out); q++ {
				i := (p + q) % len(out)
				if n := len(out[i]); n >= 2 && n <= 4 && !strings.ContainsAny(out[i], "\"'`") {
					k := uni(t, n, "mutChar")
					out[i] = out[i][:k] + out[i][k+1:]
					break
				}
			}
		case 0: // delete
			out = append(out[:p], out[p+1:]...)
		case 1: // insert
			tk := mutTokens[uni(t, len(mutTokens), "insTok")]
			out = append(out[:p], append([]string{tk}, out[p:]...)...)
		case 2: // duplicate
			out = append(out[:p], append([]string{out[p]}, out[p:]...)...)
		case 3: // swap with next
			if p+1 < len(out) {
				out[p], out[p+1] = out[p+1], out[p]
			}
		case 4: // replace
			out[p] = mutTokens[uni(t, len(mutTokens), "repTok")]
		default: // delete a separator if there is one
			for q := 0; q < len(out); q++ {
				i := (p + q) % len(out)
				if out[i] == "," || out[i] == ":" || out[i] == "]" || out[i] == ")" || out[i] == "}" {
					out = append(out[:i], out[i+1:]...)
					break
				}
			}
		}
	}
	return out
}

// TestC04Random: random sentences (6..40 tokens) and their near-miss mutants.
func TestC04Random(t *testing.T) {
	rapid.Check(t, func(t *rapid.T) {
		lex := genSentence(t, 4+rapid.IntRange(0, 20).Draw(t, "budget"))
		nearmiss := false
		if uni(t, 10, "mutate") < 6 {
			lex = mutate(t, lex)
			nearmiss = true
		}
		if len(lex) == 0 {
			lex = []string{"a"}
		}
		text := renderRandom(t, lex)
		c := Case{Property: "C04", Kind: "lang", Expr: text}
		if nearmiss {
			c.Extra = map[string]interface{}{"nearmiss": true}
		}
		r := run(t, c)
		_ = r
	})
}

// lexically broken texts: all must be rejected at Compile.
var lexBroken = []string{"`1 2`", "`[1]]`", "`1x`", "`{\"a\":1}}`", "`null null`", "`\"a\" \"b\"`", "`[] []`", "`1,2`", "`tru`", "`[1,]`", "`{\"a\"}`", "`01`", "`.5`", "`+1`", "`1.`", "`'a'`", "`NaN`", "`\"\t\"`", "\"a\tb\"", "\"\\u12\"", "\"a\nb\"", "a # b", "a ? b", "a = b", "a % b", "~a", "a;b", "a\u0080", "\u00e9", "a.\u00e9", "'abc", "\"abc", "`1", "`x`", "\"\\x\"", "a - b", "-", "[-]", "a[-:]", "`{a:1}`", "'a'b'", "\"a\"b\"", "a\x00", "\x00", "a\u2028b", "a $ b", "^", "a\\b"}

func TestC04LexBroken(t *testing.T) {
	st := statsFor("C04")
	for _, s := range lexBroken {
		for _, ctx := range []string{"%s", "a.b || %s", "%s | c", "[%s]", "f(%s)"} {
			run(t, Case{Property: "C04", Kind: "lang", Expr: fmt.Sprintf(ctx, s)})
		}
	}
	st.Class("lexbroken.templates", int64(len(lexBroken)))
}

// ---------------------------------------------------------------------------
// C03

// spellings computes the conservative, minimal and decorated spellings of a sentence.
func spellings(t *rapid.T, n *ref.Node) (min, cons, deco string, ok bool) {
	lex, err := ref.Conservative(n)
	if err != nil {
		return "", "", "", false
	}
	want := ref.Dump(n)
	cons = ref.RenderSpaced(lex)
	mlex := ref.Minimal(lex, want)
	min = ref.RenderTight(mlex)
	// decorated: double some parentheses of the conservative spelling, random whitespace
	var dl []string
	for _, l := range lex {
		dl = append(dl, l)
	}
	if t != nil {
		var out []string
		depthAdd := []int{}
		for i, l := range dl {
			isCall := l == "(" && i > 0 && ref.IsUnquotedIdentifier(dl[i-1])
			if l == "(" && !isCall && rapid.IntRange(0, 2).Draw(t, "dbl") == 0 {
				out = append(out, "(", "(")
				depthAdd = append(depthAdd, 1)
			} else if l == "(" {
				out = append(out, "(")
				depthAdd = append(depthAdd, 0)
			} else if l == ")" {
				out = append(out, ")")
				if len(depthAdd) > 0 {
					if depthAdd[len(depthAdd)-1] == 1 {
						out = append(out, ")")
					}
					depthAdd = depthAdd[:len(depthAdd)-1]
				}
			} else {
				out = append(out, l)
			}
		}
		if rapid.IntRange(0, 1).Draw(t, "wrapAll") == 0 {
			out = join([]string{"("}, out, []string{")"})
		}
		deco = renderRandom(t, out)
	} else {
		deco = "( " + ref.Render(dl, func(i int) string { return []string{" ", "\t", "\n", "  "}[i%4] }) + " )"
	}
	return min, cons, deco, true
}

func parseCase(text string, n *ref.Node, t *rapid.T) (Case, bool) {
	min, cons, deco, ok := spellings(t, n)
	if !ok {
		return Case{}, false
	}
	return Case{Property: "C03", Kind: "parse", Expr: text, Extra: map[string]interface{}{"alts": []interface{}{min, cons, deco}}}, true
}

// opPairs extracts adjacent operator-kind pairs for the coverage matrix.
func opPairs(kinds []ref.Kind) []string {
	var ops []string
	for _, k := range kinds {
		switch k {
		case ref.TPipe, ref.TOr, ref.TAnd, ref.TCmp, ref.TFlatten, ref.TStar, ref.TFilter, ref.TDot, ref.TNot, ref.TLbrace, ref.TLbracket, ref.TLparen, ref.TExpref:
			ops = append(ops, k.String())
		}
	}
	var out []string
	for i := 0; i+1 < len(ops); i++ {
		out = append(out, "pair:"+ops[i]+" "+ops[i+1])
	}
	return out
}

// TestC03Enum: every sentence up to the bound parses exactly like the
// reference parser, in all spellings, and evaluates identically in all spellings.
func TestC03Enum(t *testing.T) {
	maxLen := enumLen(4)
	shard, nshards := envInt("VERIF_SHARD", 0), envInt("VERIF_NSHARDS", 1)
	e := &enumerator{alpha: ref.EnumAlphabet(), maxLen: maxLen}
	st := statsFor("C03")
	idx := make([]int, 0, maxLen)
	toks := make([]ref.Token, 0, maxLen)
	kinds := make([]ref.Kind, 0, maxLen)
	var nSent, nGrouping int64
	var walk func()
	walk = func() {
		if len(idx) > 0 && e.rec.IsSentence(kinds) {
			nSent++
			text := ref.RenderSpaced(ref.Texts(toks))
			n, err := ref.Parse(toks)
			if err != nil {
				t.Fatalf("HARNESS-ERROR: CFG sentence %q rejected by reference parser: %v", text, err)
			}
			c, ok := parseCase(text, n, nil)
			if !ok {
				t.Fatalf("HARNESS-ERROR: cannot print %q", text)
			}
			r := predParse(c)
			alts := c.Extra["alts"].([]interface{})
			grouping := strings.Count(alts[1].(string), "(") > strings.Count(alts[0].(string), "(")
			r.Nontrivial = grouping
			if grouping {
				nGrouping++
			}
			r.Classes = append(r.Classes, opPairs(kinds)...)
			st.Record(c, r)
			if r.Violation != "" {
				c.Note, c.Expected, c.Got = r.Violation, r.Expected, r.Got
				p := writeReplay(c)
				t.Fatalf("VIOLATION-CASE file=%s expr=%q: %s (expected %s got %s)", p, text, r.Violation, r.Expected, r.Got)
			}
			// semantic layer: all spellings evaluate like the reference on a fixed document
			for _, s := range append([]interface{}{text}, alts...) {
				dr := predDiff(Case{Property: "C03", Kind: "diff", Expr: s.(string), Doc: enumDocText})
				if dr.Violation != "" {
					dc := Case{Property: "C03", Kind: "diff", Expr: s.(string), Doc: enumDocText, Note: dr.Violation, Expected: dr.Expected, Got: dr.Got}
					p := writeReplay(dc)
					t.Fatalf("VIOLATION-CASE file=%s expr=%q: %s", p, s, dr.Violation)
				}
			}
		}
		if len(idx) == maxLen {
			return
		}
		for a := range e.alpha {
			if len(idx) == 0 && a%nshards != shard {
				continue
			}
			idx = append(idx, a)
			toks = append(toks, e.alpha[a])
			kinds = append(kinds, e.alpha[a].Kind)
			walk()
			idx = idx[:len(idx)-1]
			toks = toks[:len(toks)-1]
			kinds = kinds[:len(kinds)-1]
		}
	}
	walk()
	st.mu.Lock()
	st.Exhaustive["C03.sentences"] = fmt.Sprintf("all sentences of length <= %d over the 25-symbol token alphabet (shard %d/%d: %d sentences, %d with precedence-decided grouping)", maxLen, shard, nshards, nSent, nGrouping)
	st.mu.Unlock()
}

// TestC03Random: random CFG sentences up to ~40 tokens, structural + metamorphic + semantic.
func TestC03Random(t *testing.T) {
	rapid.Check(t, func(t *rapid.T) {
		lex := genSentence(t, 4+rapid.IntRange(0, 24).Draw(t, "budget"))
		text := renderRandom(t, lex)
		toks, st, _ := ref.Lex(text)
		if st != ref.LexOK {
			statsFor("C03").Record(Case{Property: "C03", Kind: "parse", Expr: text}, Result{Discard: "generator:out-of-domain"})
			return
		}
		n, err := ref.Parse(toks)
		if err != nil {
			t.Fatalf("HARNESS-ERROR: generated non-sentence %q: %v", text, err)
		}
		c, ok := parseCase(text, n, t)
		if !ok {
			t.Fatalf("HARNESS-ERROR: cannot print %q", text)
		}
		pred := predicates["parse"]
		r := pred(c)
		alts := c.Extra["alts"].([]interface{})
		r.Nontrivial = strings.Count(alts[1].(string), "(") > strings.Count(alts[0].(string), "(")
		r.Classes = append(r.Classes, opPairs(ref.Kinds(toks))...)
		statsFor("C03").Record(c, r)
		if r.Violation != "" {
			c.Note, c.Expected, c.Got = r.Violation, r.Expected, r.Got
			p := writeReplay(c)
			t.Fatalf("VIOLATION-CASE file=%s expr=%q: %s (expected %s got %s)", p, text, r.Violation, r.Expected, r.Got)
		}
		doc := genDoc(t)
		for _, s := range append([]interface{}{text}, alts...) {
			run(t, Case{Property: "C03", Kind: "diff", Expr: s.(string), Doc: ref.Canon(doc)})
		}
	})
}

var _ = os.Getenv

// TestC04Literals: JSON literals and quoted identifiers whose text is a valid JSON
// value/string with one or two character-level edits (append junk, duplicate,
// delete, insert): Compile must accept the expression iff the standard library
// accepts the edited text as exactly one JSON value (string for identifiers).
func TestC04Literals(t *testing.T) {
	junk := []string{" 2", "]", "}", "x", ",", " null", "\"", "1", " []", "\\", ":", "0", ".", "e", "-", "+", " ", "\t", "tru"}
	rapid.Check(t, func(t *rapid.T) {
		v := genValue(t, 1, docOpts{maxDepth: 3, maxWidth: 3})
		text := ref.Canon(v)
		quoted := uni(t, 4, "quotedIdent") == 0
		if quoted {
			text = ref.QuoteJSON(docStrings[uni(t, len(docStrings), "qs")])
		}
		edits := uni(t, 3, "edits")
		for e := 0; e < edits; e++ {
			p := rapid.IntRange(0, len(text)).Draw(t, "pos")
			switch uni(t, 4, "editKind") {
			case 0:
				text = text + junk[uni(t, len(junk), "junk")]
			case 1:
				if p < len(text) {
					text = text[:p] + text[p+1:]
				}
			case 2:
				text = text[:p] + junk[uni(t, len(junk), "ins")] + text[p:]
			default:
				if p < len(text) {
					text = text[:p] + text[p:p+1] + text[p:]
				}
			}
		}
		if !isValidUTF8(text) || strings.ContainsAny(text, "`") {
			return
		}
		var expr string
		if quoted {
			if len(text) < 2 || text[0] != '"' || text[len(text)-1] != '"' || strings.Contains(text[1:len(text)-1], "\"") && !strings.Contains(text, "\\\"") {
				return
			}
			expr = text
		} else {
			expr = "`" + text + "`"
		}
		ctx := []string{"%s", "a || %s", "[%s, b]", "f(%s)", "%s | c"}[uni(t, 5, "ctx")]
		if quoted {
			ctx = []string{"%s", "a.%s", "{%s: b}", "%s.b", "[?%s]"}[uni(t, 5, "qctx")]
		}
		c := Case{Property: "C04", Kind: "lang", Expr: strings.Replace(ctx, "%s", expr, 1), Extra: map[string]interface{}{"nearmiss": true}}
		run(t, c)
	})
}

// TestC04NearWhitespace: JMESPath whitespace is exactly space, tab, newline and carriage
// return. Every other character that some library calls "space" (Unicode White_Space and the
// Z categories, format characters such as the byte order mark and zero-width space, the C0
// separators that Java's isWhitespace accepts, NUL) belongs to no token, wherever it stands.
func TestC04NearWhitespace(t *testing.T) {
	var near []rune
	for r := rune(0); r <= 0x10ffff; r++ {
		if r == ' ' || r == '\t' || r == '\n' || r == '\r' {
			continue
		}
		if unicode.IsSpace(r) || unicode.In(r, unicode.Z, unicode.Cf) || (r >= 0x1c && r <= 0x1f) || r == 0 || r == 0x0b || r == 0x0c || r == 0x7f {
			near = append(near, r)
		}
	}
	tmpls := []string{"a%s", "%sa", "a%s.%sb", "a %s|| b", "[a,%sb]", "f(%sa)", "{a:%sb}", "a[%s0]", "a[0%s:1]", "a%s", "'x'%s", "`1`%s", "a |%s b", "!%sa", "a[?%sb]", "@%s", "a.*%s", "a[]%s.b"}
	n := 0
	for _, r := range near {
		for _, tm := range tmpls {
			run(t, Case{Property: "C04", Kind: "lang", Expr: strings.Replace(tm, "%s", string(r), -1)})
			n++
		}
	}
	st := statsFor("C04")
	st.mu.Lock()
	st.Exhaustive["C04.near-whitespace"] = fmt.Sprintf("%d characters that are space-like but not JMESPath whitespace x %d positions between tokens: %d expressions, all must be rejected", len(near), len(tmpls), n)
	st.mu.Unlock()
}

package harness

// C05 with non-finite intermediate values. JSON documents cannot hold them and to_number
// refuses them, but sums of huge finite numbers overflow to +Inf/-Inf and their sum is NaN.
// What such a value means is not specified (the reference model declares the result
// ambiguous), but Search must still return: no function, operator or error message may
// panic on it.

import (
	"fmt"
	"strings"
	"testing"

	"verifharness/ref"
)

var nonFinite = []struct{ name, expr string }{
	{"+Inf", "sum(`[1e308,1e308]`)"},
	{"-Inf", "sum(`[-1e308,-1e308]`)"},
	{"NaN", "sum([sum(`[1e308,1e308]`), sum(`[-1e308,-1e308]`)])"},
	{"NaN-avg", "avg([sum(`[1e308,1e308]`), sum(`[-1e308,-1e308]`)])"},
	{"Inf-from-doc", "sum(big)"},
}

const nonFiniteDoc = `{"big":[1.7976931348623157e308,1.7976931348623157e308],"a":[1,2],"s":"x"}`

// TestC05NonFinite: every function with a non-finite value in every argument position
// (alone, inside an array, inside an object), and every operator and projection over it.
func TestC05NonFinite(t *testing.T) {
	n := 0
	try := func(e string) {
		run(t, Case{Property: "C05", Kind: "robust", Expr: e, Doc: nonFiniteDoc, Extra: map[string]interface{}{"class": "non-finite"}})
		n++
	}
	for _, nf := range nonFinite {
		x := nf.expr
		forms := []string{x, "[" + x + "]", "[" + x + ", `1`]", "{k: " + x + "}", "[`\"a\"`, " + x + "]", "to_string(" + x + ")"}
		for _, name := range ref.FunctionNames {
			sig := ref.Sigs[name]
			np := len(sig.Params)
			if sig.Variadic {
				np++
			}
			for pos := 0; pos < np; pos++ {
				for _, f := range forms {
					args := make([]string, np)
					for i := range args {
						pi := i
						if pi >= len(sig.Params) {
							pi = len(sig.Params) - 1
						}
						switch {
						case i == pos:
							args[i] = f
						case len(sig.Params[pi]) == 1 && sig.Params[pi][0] == ref.PExpref:
							args[i] = "&@"
						default:
							args[i] = []string{"a", "s", "`1`", "@"}[(i+pos)%4]
						}
					}
					if pi := pos; pi < len(sig.Params) && len(sig.Params[pi]) == 1 && sig.Params[pi][0] == ref.PExpref {
						args[pos] = "&" + f
					}
					try(name + "(" + strings.Join(args, ", ") + ")")
				}
			}
		}
		for _, tmpl := range []string{"%s == %s", "%s != %s", "%s < `1`", "`1` >= %s", "%s || `1`", "%s && `1`", "!%s", "[%s][?@ > `0`]", "[%s][?@ == @]", "[%s, `1`] | sort(@)", "[%s, `1`] | max(@)", "[%s][*].to_string(@)",
			"[%s] | [0]", "{a: %s}.a", "%s | @", "[%s][].abs(@)", "[%s, `2`, `1`] | sort_by(@, &@)", "[%s, `1`] | max_by(@, &@)", "[%s][::-1]", "%s.a", "%s[0]", "[%s] | contains(@, `1`)", "[%s] | join(',', @)", "to_string([%s, {a: %s}])",
			"not_null(%s)", "type(%s)", "[%s][?to_string(@) == 'x']", "map(&[@, %s], a)", "a[?%s > @]", "a[*].[@ < %s]"} {
			try(strings.Replace(tmpl, "%s", x, -1))
		}
	}
	st := statsFor("C05")
	st.mu.Lock()
	st.Exhaustive["C05.non-finite"] = fmt.Sprintf("%d ways of producing +Inf, -Inf and NaN by overflowing sums x (every function x every argument position x 6 wrappings + 30 operator/projection contexts): %d expressions, none may panic", len(nonFinite), n)
	st.mu.Unlock()
}

// TestC05Operands: every ordered pair of the C07 value universe under every binary operator,
// contains() and the by-value functions, as literals: no pair of values may bring the
// library down (comparisons of arrays and objects of different sizes, one a prefix of the other).
func TestC05Operands(t *testing.T) {
	n := 0
	tmpls := []string{"%s == %s", "%s != %s", "%s < %s", "%s >= %s", "%s || %s", "%s && %s", "contains(%s, %s)", "[%s][?@ == %s]", "[%s, %s] | [0] == [1]", "not_null(%s, %s)", "[%s, %s] | sort_by(@, &to_string(@))", "merge(%s, %s)", "starts_with(%s, %s)", "join(%s, %s)", "[%s] | contains(@, %s)"}
	for _, x := range universeC07 {
		for _, y := range universeC07 {
			for _, tm := range tmpls {
				e := strings.Replace(strings.Replace(tm, "%s", lit(x), 1), "%s", lit(y), 1)
				run(t, Case{Property: "C05", Kind: "robust", Expr: e, Doc: "null", Extra: map[string]interface{}{"class": "operand-pair"}})
				n++
			}
		}
	}
	st := statsFor("C05")
	st.mu.Lock()
	st.Exhaustive["C05.operand-pairs"] = fmt.Sprintf("%d^2 ordered pairs of universe values x %d two-operand constructs: %d expressions, none may panic (and each must evaluate like the reference model)", len(universeC07), len(tmpls), n)
	st.mu.Unlock()
}

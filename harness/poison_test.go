package harness

// Hostile history: every property is stated for every call, not for the first call in a
// fresh process. run() therefore precedes a deterministic fraction of all cases with a few
// unrelated library calls ("before" steps) whose outcome is ignored: failed lexes and
// parses, failed and successful function calls, spellings near the case's own expression.
// The oracle of the case (the reference model, an inverse, the CLI) does not depend on
// library state, so anything that leaks from one call into the next (pooled lexers and
// argument slices, caches keyed too coarsely, flags left set by an error return) shows
// up as an ordinary violation of the property under test. The steps are a pure function
// of the case (hash), are stored in the case file, and are re-executed by a replay.

import (
	"encoding/base64"
	"os"
	"strings"
	"sync"
	"unicode/utf8"

	jp "github.com/jmespath/go-jmespath"

	"verifharness/ref"
)

var poisonOff = os.Getenv("VERIF_NO_POISON") == "1"

// hostile calls whose effects must not outlive them
var poisonPool = []string{
	// failed lexes that stop in the middle of a token
	`'it\'s`, `'a\\`, `'x\y' "a\qb"`, "\"a\tb\"", `"a\qb"`, `"abc`, "`{\"a\":", "`[1,`", "`\"x\\`y`", "`1` `", `"\ud800"`, `'\`, "a.\"\\u12\"",
	// failed parses that stop in the middle of a construct
	`a[1:x]`, `a[1:2:3:4]`, `a[:2`, `a[0`, `a[?b`, `a[?b ==`, `{a:`, `{a: b,`, `[a,`, `foo(`, `foo(a,`, `foo(&`, `a.`, `a ||`, `a &&`, `a |`, `!`, `(a`, `a.*.`, `a[*].`, `a[].`, `@.[`, `a ==`, `&`, `a[-`, `a[1:-`,
	// successful lexes and parses that exercise every scratch buffer
	`'x\y'`, `'it\'s'`, `"a\"b"`, "`\"tick\\`tock\"`", `"\u00e9\ud83d\ude00"`, `a[0].b[1:2].c[::-1].d[*].e[].f[?g].h`, `a.*.b`, `{a: b, "c": 'd'}`, `[a, b][0]`,
	// failed evaluations
	"sort_by(`[{\"a\":1},{\"a\":\"x\"},{\"a\":2}]`, &a)", "sort_by(`[{\"a\":2},{\"a\":1},{\"a\":\"x\"}]`, &a)", "max_by(`[{\"a\":1},{\"a\":\"x\"}]`, &a)", "min_by(`[{\"a\":[]},{\"a\":1}]`, &a)",
	"sort(`[1,\"a\"]`)", "sum(`[\"a\"]`)", "avg(`[1,\"a\"]`)", "max(`[1,\"a\"]`)", "min(`[\"a\",1]`)", "join(', ', `[1]`)", "join(`1`, `[\"a\"]`)", "abs('a')", "length(`1`)", "nosuch(@)", "abs()",
	"`[1,2]`[::0]", "merge(`{}`, `1`)", "to_string(&a)", "map(&abs(@), `[1,\"a\"]`)", "keys(`[]`)", "values('a')", "starts_with(`1`, 'a')", "reverse(`1`)", "to_number(&a)", "contains(`1`, `1`)",
	"sort_by(`[{\"a\":[{\"k\":2},{\"k\":1}]},{\"a\":[{\"k\":\"x\"},{\"k\":1}]}]`, &sort_by(a, &k)[0].k)",
	// successful evaluations that leave well-typed values in anything that remembers
	"sort_by(`[{\"a\":3},{\"a\":1},{\"a\":2}]`, &a)", "sort_by(`[{\"a\":\"c\"},{\"a\":\"a\"}]`, &a)", "max_by(`[{\"a\":3},{\"a\":1}]`, &a)", "sort(`[3,1,2]`)", "sort(`[\"b\",\"a\"]`)", "sum(`[1,2]`)", "avg(`[1,2]`)",
	"max(`[1,2]`)", "min(`[\"a\",\"b\"]`)", "join(', ', `[\"a\",\"b\"]`)", "to_array('x')", "to_array(`{\"a\":1}`)", "merge(`{\"a\":1}`, `{\"b\":2}`)", "merge(@, @)", "map(&to_array(@), `[1,2]`)", "reverse(`[1,2,3]`)",
	"`[3,1,2]`[::-1]", "`[3,1,2]`[0::-1]", "`[3,1,2]`[::2]", "`[3,1,2]`[-9:9:1]", "a.a[?a > `1`].q", "q[].a", "a.q.* | [0]", "length(a) | `5`", "keys(a)", "values(a)", "not_null(a.a[3], `1`)", "b[?@ > `1`]", "nums[0]", "strs[1]",
	"to_string(`1.0`)", "to_number('1e3')", "floor(`1.5`)", "ceil(`-1.5`)", "type(@)", "contains(c, 's')", "ends_with(c, 's')", "d[0] | [0]", "[b, c][0][1:]",
}

var (
	sharedParserMu sync.Mutex
	sharedParser   = jp.NewParser()
)

// sharedParse parses with the one Parser object that every case of the process shares.
func sharedParse(expr string) (n jp.ASTNode, err error, pan interface{}) {
	sharedParserMu.Lock()
	defer sharedParserMu.Unlock()
	pan = safely(func() { n, err = sharedParser.Parse(expr) })
	if pan != nil {
		sharedParser = jp.NewParser() // do not let one panic (C05's business) wedge the object
	}
	return
}

func encodeStep(e string) string {
	if utf8.ValidString(e) && !strings.HasPrefix(e, "b64:") {
		return e
	}
	return "b64:" + base64.StdEncoding.EncodeToString([]byte(e))
}

func decodeStep(s string) string {
	if strings.HasPrefix(s, "b64:") {
		b, err := base64.StdEncoding.DecodeString(s[4:])
		if err != nil {
			panic("HARNESS-ERROR: bad before step")
		}
		return string(b)
	}
	return s
}

// poisonFor chooses the before-steps of a case: none for 60 % of the cases.
func poisonFor(c Case) []string {
	h := hash64("poison\x00" + c.key())
	if h%10 >= 4 {
		return []string{}
	}
	h /= 10
	n := 1 + int(h%3)
	h /= 3
	own := c.expr()
	var steps []string
	for i := 0; i < n; i++ {
		pick := h % 16
		h = hash64(string(rune(i)) + "\x00" + c.key())
		switch {
		case pick < 4 && len(own) > 1 && len(own) < 4096: // a spelling near the case's own expression
			switch h % 10 {
			case 6:
				// the same text with other amounts of white space everywhere, inside quoted tokens
				// too (another expression that a cache keyed by "normalised" text would confuse with this one)
				steps = append(steps, encodeStep(strings.Replace(own, " ", "  ", -1)))
			case 7:
				steps = append(steps, encodeStep(strings.Join(strings.Fields(own), " ")))
			case 8:
				steps = append(steps, encodeStep(strings.Replace(own, " ", "\v", -1)))
			case 9:
				steps = append(steps, encodeStep(strings.ToLower(own)))
			case 0:
				steps = append(steps, encodeStep(own[:1+int((h/10)%uint64(len(own)-1))]))
			case 1:
				steps = append(steps, encodeStep("   "+own+"  "))
			case 2:
				steps = append(steps, encodeStep(own+"\f"))
			case 3:
				steps = append(steps, encodeStep(own+" | 'it\\'s"))
			case 4:
				steps = append(steps, encodeStep("["+own+", sort_by(`[1,\"a\",2]`, &@)]"))
			default:
				steps = append(steps, encodeStep(own[int((h/10)%uint64(len(own))):]))
			}
		default:
			steps = append(steps, poisonPool[int((h/16)%uint64(len(poisonPool)))])
		}
	}
	return steps
}

// applyBefore performs the before-steps; nothing they return or do is judged here.
func applyBefore(steps []string) {
	for _, s := range steps {
		e := decodeStep(s)
		_, _, _ = sharedParse(e)
		safely(func() { _, _ = jp.Search(e, ref.DeepCopy(interveningDocs[1])) })
	}
}

//go:build !race

package harness

const raceBuild = false

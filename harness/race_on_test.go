//go:build race

package harness

const raceBuild = true

package ref

// Context-free recogniser for the JMESPath grammar over token classes,
// transcribed production by production from the ABNF of the specification.
// It knows nothing about precedence: it only answers "is this token sequence
// a sentence". Decided by memoised span derivation (CYK style).
//
//	E      -> E . SubRHS | E BS | BS | E cmp E | E || E | E && E | E '|' E | ! E | ( E )
//	        | * | ML | MH | literal | raw | F | @ | ID
//	SubRHS -> ID | ML | MH | F | *
//	ID     -> unquoted | quoted
//	ML     -> [ E (, E)* ]
//	MH     -> { KV (, KV)* }        KV -> ID : E
//	BS     -> [ number ] | [ * ] | [ SL ] | [] | [? E ]
//	SL     -> number? : number? ( : number? )?
//	F      -> unquoted ( ) | unquoted ( FA (, FA)* )      FA -> E | & E

type nt int

const (
	ntE nt = iota
	ntSubRHS
	ntML
	ntMH
	ntKVs
	ntKV
	ntEs
	ntBS
	ntF
	ntFAs
	ntFA
	numNT
)

// Recognizer holds the memo table; reuse it across calls to avoid allocation.
type Recognizer struct {
	toks []Kind
	n    int
	memo []int8 // numNT * (n+1) * (n+1); 0 unknown, 1 yes, 2 no
}

// IsSentence reports whether the token-class sequence is a sentence of the grammar.
func (r *Recognizer) IsSentence(toks []Kind) bool {
	n := len(toks)
	if n == 0 {
		return false
	}
	r.toks = toks
	r.n = n
	need := int(numNT) * (n + 1) * (n + 1)
	if cap(r.memo) < need {
		r.memo = make([]int8, need)
	} else {
		r.memo = r.memo[:need]
		for i := range r.memo {
			r.memo[i] = 0
		}
	}
	return r.d(ntE, 0, n)
}

// IsSentence is a convenience wrapper allocating a fresh recogniser.
func IsSentence(toks []Kind) bool {
	var r Recognizer
	return r.IsSentence(toks)
}

func (r *Recognizer) d(x nt, i, j int) bool {
	if i >= j {
		return false
	}
	idx := (int(x)*(r.n+1)+i)*(r.n+1) + j
	if m := r.memo[idx]; m != 0 {
		return m == 1
	}
	r.memo[idx] = 2 // guards against left recursion on the same span
	res := r.compute(x, i, j)
	if res {
		r.memo[idx] = 1
	} else {
		r.memo[idx] = 2
	}
	return res
}

func isID(k Kind) bool { return k == TUnquoted || k == TQuoted }

func (r *Recognizer) compute(x nt, i, j int) bool {
	t := r.toks
	switch x {
	case ntE:
		if j-i == 1 {
			switch t[i] {
			case TUnquoted, TQuoted, TLiteral, TRaw, TCurrent, TStar, TFlatten:
				return true
			}
			return false
		}
		if r.d(ntML, i, j) || r.d(ntMH, i, j) || r.d(ntF, i, j) || r.d(ntBS, i, j) {
			return true
		}
		if t[i] == TNot && r.d(ntE, i+1, j) {
			return true
		}
		if t[i] == TLparen && t[j-1] == TRparen && r.d(ntE, i+1, j-1) {
			return true
		}
		for k := i + 1; k < j; k++ {
			switch t[k] {
			case TDot:
				if r.d(ntSubRHS, k+1, j) && r.d(ntE, i, k) {
					return true
				}
			case TCmp, TOr, TAnd, TPipe:
				if r.d(ntE, k+1, j) && r.d(ntE, i, k) {
					return true
				}
			case TLbracket, TFlatten, TFilter:
				if r.d(ntBS, k, j) && r.d(ntE, i, k) {
					return true
				}
			}
		}
		return false
	case ntSubRHS:
		if j-i == 1 {
			return isID(t[i]) || t[i] == TStar
		}
		return r.d(ntML, i, j) || r.d(ntMH, i, j) || r.d(ntF, i, j)
	case ntML:
		return t[i] == TLbracket && t[j-1] == TRbracket && r.d(ntEs, i+1, j-1)
	case ntEs:
		if r.d(ntE, i, j) {
			return true
		}
		for k := i + 1; k < j-1; k++ {
			if t[k] == TComma && r.d(ntE, i, k) && r.d(ntEs, k+1, j) {
				return true
			}
		}
		return false
	case ntMH:
		return t[i] == TLbrace && t[j-1] == TRbrace && r.d(ntKVs, i+1, j-1)
	case ntKVs:
		if r.d(ntKV, i, j) {
			return true
		}
		for k := i + 1; k < j-1; k++ {
			if t[k] == TComma && r.d(ntKV, i, k) && r.d(ntKVs, k+1, j) {
				return true
			}
		}
		return false
	case ntKV:
		return j-i >= 3 && isID(t[i]) && t[i+1] == TColon && r.d(ntE, i+2, j)
	case ntBS:
		if j-i == 1 {
			return t[i] == TFlatten
		}
		if t[i] == TFilter {
			return t[j-1] == TRbracket && r.d(ntE, i+1, j-1)
		}
		if t[i] != TLbracket || t[j-1] != TRbracket {
			return false
		}
		if j-i == 3 && (t[i+1] == TNumber || t[i+1] == TStar) {
			return true
		}
		return isSliceBody(t[i+1 : j-1])
	case ntF:
		if j-i < 3 || t[i] != TUnquoted || t[i+1] != TLparen || t[j-1] != TRparen {
			return false
		}
		if j-i == 3 {
			return true
		}
		return r.d(ntFAs, i+2, j-1)
	case ntFAs:
		if r.d(ntFA, i, j) {
			return true
		}
		for k := i + 1; k < j-1; k++ {
			if t[k] == TComma && r.d(ntFA, i, k) && r.d(ntFAs, k+1, j) {
				return true
			}
		}
		return false
	case ntFA:
		if t[i] == TExpref {
			return r.d(ntE, i+1, j)
		}
		return r.d(ntE, i, j)
	}
	return false
}

// isSliceBody: number? : number? ( : number? )?
func isSliceBody(t []Kind) bool {
	colons := 0
	prevNum := false
	for _, k := range t {
		switch k {
		case TColon:
			colons++
			prevNum = false
		case TNumber:
			if prevNum {
				return false
			}
			prevNum = true
		default:
			return false
		}
	}
	return colons == 1 || colons == 2
}

package ref

import "math/big"

// EnumAlphabet is the 25-symbol token alphabet used for exhaustive enumeration:
// one representative lexeme per token class (two for comparators).
func EnumAlphabet() []Token {
	lit, _ := ParseJSON("1")
	return []Token{
		{Kind: TUnquoted, Text: "a", Str: "a"},
		{Kind: TQuoted, Text: `"q"`, Str: "q"},
		{Kind: TNumber, Text: "0", Num: big.NewInt(0)},
		{Kind: TStar, Text: "*"},
		{Kind: TDot, Text: "."},
		{Kind: TLbracket, Text: "["},
		{Kind: TRbracket, Text: "]"},
		{Kind: TFlatten, Text: "[]"},
		{Kind: TFilter, Text: "[?"},
		{Kind: TLparen, Text: "("},
		{Kind: TRparen, Text: ")"},
		{Kind: TLbrace, Text: "{"},
		{Kind: TRbrace, Text: "}"},
		{Kind: TComma, Text: ","},
		{Kind: TColon, Text: ":"},
		{Kind: TCmp, Text: "=="},
		{Kind: TCmp, Text: "<"},
		{Kind: TOr, Text: "||"},
		{Kind: TAnd, Text: "&&"},
		{Kind: TPipe, Text: "|"},
		{Kind: TNot, Text: "!"},
		{Kind: TExpref, Text: "&"},
		{Kind: TCurrent, Text: "@"},
		{Kind: TLiteral, Text: "`1`", Lit: lit},
		{Kind: TRaw, Text: "'r'", Str: "r"},
	}
}

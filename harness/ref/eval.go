package ref

import (
	"errors"
	"math/big"
)

// Error classes of the specification.
var (
	ErrInvalidType     = errors.New("invalid-type")
	ErrInvalidArity    = errors.New("invalid-arity")
	ErrUnknownFunction = errors.New("unknown-function")
	ErrInvalidValue    = errors.New("invalid-value")
)

// Ev is one evaluation. Ambiguous is set when the specification does not
// determine the result (order-sensitive use of an unordered member list, or an
// inspection of text/number whose exact spelling is implementation specific).
type Ev struct {
	Ambiguous bool
	Why       string
	// Trace counters used by the checks to classify cases.
	Stats map[string]int
}

func (ev *Ev) amb(why string) {
	if !ev.Ambiguous {
		ev.Ambiguous = true
		ev.Why = why
	}
}

func (ev *Ev) count(k string) {
	if ev.Stats == nil {
		ev.Stats = map[string]int{}
	}
	ev.Stats[k]++
}

// Truthy implements the JMESPath truth definition.
func Truthy(v interface{}) bool {
	switch t := v.(type) {
	case nil:
		return false
	case bool:
		return t
	case string:
		return t != ""
	case []interface{}:
		return len(t) > 0
	case map[string]interface{}:
		return len(t) > 0
	case Bag:
		return true // len >= 2
	case TextOf:
		return true // JSON text is never empty
	}
	return true
}

func mkBag(items []interface{}) interface{} {
	if len(items) >= 2 {
		return Bag{Items: items}
	}
	return items
}

// elems views arrays and bags as element lists.
func elems(v interface{}) (items []interface{}, isBag, ok bool) {
	switch t := v.(type) {
	case []interface{}:
		return t, false, true
	case Bag:
		return t.Items, true, true
	}
	return nil, false, false
}

func rebuild(items []interface{}, bag bool) interface{} {
	if bag {
		return mkBag(items)
	}
	return items
}

// Eval evaluates node against cur.
func (ev *Ev) Eval(n *Node, cur interface{}) (interface{}, error) {
	switch n.T {
	case "Field":
		if m, ok := cur.(map[string]interface{}); ok {
			ev.count("field.object")
			v, present := m[n.S]
			if !present {
				ev.count("field.missing")
				return nil, nil
			}
			return v, nil
		}
		ev.count("field.nonobject")
		return nil, nil
	case "Literal":
		return DeepCopy(n.V), nil
	case "Current", "Identity":
		return cur, nil
	case "Sub", "IndexExpr":
		l, err := ev.Eval(n.K[0], cur)
		if err != nil {
			return nil, err
		}
		return ev.Eval(n.K[1], l)
	case "Index":
		items, bag, ok := elems(cur)
		if !ok {
			ev.count("index.nonarray")
			return nil, nil
		}
		idx := n.I
		if idx < 0 {
			idx += int64(len(items))
			ev.count("index.negative")
		}
		if idx < 0 || idx >= int64(len(items)) {
			ev.count("index.outofrange")
			return nil, nil
		}
		if bag {
			ev.amb("index into unordered member list")
			return nil, nil
		}
		ev.count("index.hit")
		return items[idx], nil
	case "Slice":
		items, bag, ok := elems(cur)
		if !ok {
			ev.count("slice.nonarray")
			return nil, nil
		}
		var prm [3]*big.Int
		for i, p := range n.Sl {
			if p != nil {
				prm[i] = big.NewInt(*p)
			}
		}
		idx, err := SliceIndices(len(items), prm[0], prm[1], prm[2])
		if err != nil {
			return nil, err
		}
		out := make([]interface{}, 0, len(idx))
		for _, i := range idx {
			out = append(out, items[i])
		}
		if bag && len(out) > 0 {
			ev.amb("slice of unordered member list")
		}
		ev.count("slice.array")
		return out, nil
	case "Projection":
		l, err := ev.Eval(n.K[0], cur)
		if err != nil {
			return nil, err
		}
		items, bag, ok := elems(l)
		if !ok {
			ev.count("proj.lhs-nonarray")
			return nil, nil
		}
		return ev.project(items, bag, n.K[1], nil)
	case "Flatten":
		l, err := ev.Eval(n.K[0], cur)
		if err != nil {
			return nil, err
		}
		items, bag, ok := elems(l)
		if !ok {
			ev.count("flatten.nonarray")
			return nil, nil
		}
		out := []interface{}{}
		for _, e := range items {
			if sub, subBag, isArr := elems(e); isArr {
				if subBag {
					bag = true
				}
				if len(sub) > 0 {
					ev.count("flatten.nested")
				}
				out = append(out, sub...)
			} else {
				out = append(out, e)
			}
		}
		ev.count("flatten.array")
		return rebuild(out, bag), nil
	case "ValueProjection":
		l, err := ev.Eval(n.K[0], cur)
		if err != nil {
			return nil, err
		}
		m, ok := l.(map[string]interface{})
		if !ok {
			ev.count("vproj.lhs-nonobject")
			return nil, nil
		}
		vals := make([]interface{}, 0, len(m))
		for _, k := range SortedKeys(m) {
			vals = append(vals, m[k])
		}
		ev.count("vproj.object")
		return ev.project(vals, true, n.K[1], nil)
	case "FilterProjection":
		l, err := ev.Eval(n.K[0], cur)
		if err != nil {
			return nil, err
		}
		items, bag, ok := elems(l)
		if !ok {
			ev.count("filter.lhs-nonarray")
			return nil, nil
		}
		return ev.project(items, bag, n.K[1], n.K[2])
	case "Or":
		l, err := ev.Eval(n.K[0], cur)
		if err != nil {
			return nil, err
		}
		if Truthy(l) {
			ev.count("or.short")
			return l, nil
		}
		ev.count("or.right")
		return ev.Eval(n.K[1], cur)
	case "And":
		l, err := ev.Eval(n.K[0], cur)
		if err != nil {
			return nil, err
		}
		if !Truthy(l) {
			ev.count("and.short")
			return l, nil
		}
		ev.count("and.right")
		return ev.Eval(n.K[1], cur)
	case "Not":
		l, err := ev.Eval(n.K[0], cur)
		if err != nil {
			return nil, err
		}
		ev.count("not")
		return !Truthy(l), nil
	case "Comparator":
		l, err := ev.Eval(n.K[0], cur)
		if err != nil {
			return nil, err
		}
		r, err := ev.Eval(n.K[1], cur)
		if err != nil {
			return nil, err
		}
		return ev.compare(n.S, l, r), nil
	case "Pipe":
		l, err := ev.Eval(n.K[0], cur)
		if err != nil {
			return nil, err
		}
		ev.count("pipe")
		return ev.Eval(n.K[1], l)
	case "List":
		if cur == nil {
			ev.count("multiselect.null")
			return nil, nil
		}
		out := make([]interface{}, 0, len(n.K))
		for _, k := range n.K {
			v, err := ev.Eval(k, cur)
			if err != nil {
				return nil, err
			}
			out = append(out, v)
		}
		ev.count("multiselect.list")
		return out, nil
	case "Hash":
		if cur == nil {
			ev.count("multiselect.null")
			return nil, nil
		}
		out := make(map[string]interface{}, len(n.K))
		for _, kv := range n.K {
			v, err := ev.Eval(kv.K[0], cur)
			if err != nil {
				return nil, err
			}
			out[kv.S] = v
		}
		ev.count("multiselect.hash")
		return out, nil
	case "ExpRef":
		return ExpRef{N: n.K[0]}, nil
	case "Function":
		args := make([]interface{}, 0, len(n.K))
		for _, a := range n.K {
			v, err := ev.Eval(a, cur)
			if err != nil {
				return nil, err
			}
			args = append(args, v)
		}
		return ev.call(n.S, args)
	}
	return nil, errors.New("reference model: unknown node " + n.T)
}

// project applies rhs to every item (those passing cond, if any) and drops nulls.
func (ev *Ev) project(items []interface{}, bag bool, rhs *Node, cond *Node) (interface{}, error) {
	out := []interface{}{}
	kept, dropped := 0, 0
	for _, e := range items {
		if cond != nil {
			c, err := ev.Eval(cond, e)
			if err != nil {
				return nil, err
			}
			if !Truthy(c) {
				ev.count("filter.rejected")
				continue
			}
			ev.count("filter.kept")
		}
		v, err := ev.Eval(rhs, e)
		if err != nil {
			return nil, err
		}
		if v == nil {
			dropped++
			continue
		}
		kept++
		out = append(out, v)
	}
	if len(items) == 0 {
		ev.count("proj.empty")
	}
	if kept > 0 {
		ev.count("proj.kept")
	}
	if dropped > 0 {
		ev.count("proj.dropped-null")
	}
	return rebuild(out, bag), nil
}

func (ev *Ev) compare(op string, l, r interface{}) interface{} {
	if _, ok := l.(ExpRef); ok {
		ev.amb("comparison of an expression reference")
		return nil
	}
	if _, ok := r.(ExpRef); ok {
		ev.amb("comparison of an expression reference")
		return nil
	}
	switch op {
	case "==", "!=":
		ev.count("cmp.eq")
		possible := PossiblyEqual(l, r)
		var res bool
		if !possible {
			res = false
		} else if HasSpecial(l) || HasSpecial(r) {
			ev.amb("equality involving an unordered list or implementation-specific text")
			res = true
		} else {
			res = true
		}
		if op == "!=" {
			return !res
		}
		return res
	}
	a, ok1 := l.(float64)
	b, ok2 := r.(float64)
	if !ok1 || !ok2 {
		ev.count("cmp.order-nonnumber")
		return nil
	}
	ev.count("cmp.order-number")
	switch op {
	case "<":
		return a < b
	case "<=":
		return a <= b
	case ">":
		return a > b
	case ">=":
		return a >= b
	}
	return nil
}

// EvalText parses text strictly and evaluates it; convenience for checks.
func EvalText(text string, doc interface{}) (val interface{}, ev *Ev, evalErr error, perr error) {
	n, _, perr := ParseText(text)
	if perr != nil {
		return nil, nil, nil, perr
	}
	ev = &Ev{}
	val, evalErr = ev.Eval(n, doc)
	return val, ev, evalErr, nil
}

package ref

import (
	"math"
	"regexp"
	"strconv"
	"strings"
)

// PType is a parameter type of the function specification.
type PType int

const (
	PNumber PType = iota
	PString
	PArray
	PObject
	PArrayNumber
	PArrayString
	PExpref
	PAny
)

// Sig is a function signature: Params for the fixed positions; when Variadic,
// the last parameter may repeat (at least once).
type Sig struct {
	Params   [][]PType
	Variadic bool
}

// Sigs is the signature table of the 26 built-in functions (specification).
var Sigs = map[string]Sig{
	"abs":         {Params: [][]PType{{PNumber}}},
	"avg":         {Params: [][]PType{{PArrayNumber}}},
	"ceil":        {Params: [][]PType{{PNumber}}},
	"contains":    {Params: [][]PType{{PArray, PString}, {PAny}}},
	"ends_with":   {Params: [][]PType{{PString}, {PString}}},
	"floor":       {Params: [][]PType{{PNumber}}},
	"join":        {Params: [][]PType{{PString}, {PArrayString}}},
	"keys":        {Params: [][]PType{{PObject}}},
	"length":      {Params: [][]PType{{PString, PArray, PObject}}},
	"map":         {Params: [][]PType{{PExpref}, {PArray}}},
	"max":         {Params: [][]PType{{PArrayNumber, PArrayString}}},
	"max_by":      {Params: [][]PType{{PArray}, {PExpref}}},
	"merge":       {Params: [][]PType{{PObject}}, Variadic: true},
	"min":         {Params: [][]PType{{PArrayNumber, PArrayString}}},
	"min_by":      {Params: [][]PType{{PArray}, {PExpref}}},
	"not_null":    {Params: [][]PType{{PAny}}, Variadic: true},
	"reverse":     {Params: [][]PType{{PString, PArray}}},
	"sort":        {Params: [][]PType{{PArrayNumber, PArrayString}}},
	"sort_by":     {Params: [][]PType{{PArray}, {PExpref}}},
	"starts_with": {Params: [][]PType{{PString}, {PString}}},
	"sum":         {Params: [][]PType{{PArrayNumber}}},
	"to_array":    {Params: [][]PType{{PAny}}},
	"to_string":   {Params: [][]PType{{PAny}}},
	"to_number":   {Params: [][]PType{{PAny}}},
	"type":        {Params: [][]PType{{PAny}}},
	"values":      {Params: [][]PType{{PObject}}},
}

// FunctionNames lists the built-ins in sorted order.
var FunctionNames = func() []string {
	m := map[string]interface{}{}
	for k := range Sigs {
		m[k] = nil
	}
	return SortedKeys(m)
}()

func isNumber(v interface{}) bool { _, ok := v.(float64); return ok }
func isString(v interface{}) bool {
	switch v.(type) {
	case string, TextOf:
		return true
	}
	return false
}

// HasType reports whether value v satisfies parameter type t.
func HasType(v interface{}, t PType) bool {
	switch t {
	case PNumber:
		return isNumber(v)
	case PString:
		return isString(v)
	case PArray:
		_, _, ok := elems(v)
		return ok
	case PObject:
		_, ok := v.(map[string]interface{})
		return ok
	case PArrayNumber, PArrayString:
		items, _, ok := elems(v)
		if !ok {
			return false
		}
		for _, e := range items {
			if t == PArrayNumber && !isNumber(e) {
				return false
			}
			if t == PArrayString && !isString(e) {
				return false
			}
		}
		return true
	case PExpref:
		_, ok := v.(ExpRef)
		return ok
	case PAny:
		_, isRef := v.(ExpRef)
		return !isRef
	}
	return false
}

// CheckCall decides, from the signature table alone, whether calling name with
// these argument values is well-typed. It returns nil or the error class.
func CheckCall(name string, args []interface{}) error {
	sig, ok := Sigs[name]
	if !ok {
		return ErrUnknownFunction
	}
	if sig.Variadic {
		if len(args) < len(sig.Params) {
			return ErrInvalidArity
		}
	} else if len(args) != len(sig.Params) {
		return ErrInvalidArity
	}
	for i, a := range args {
		pi := i
		if pi >= len(sig.Params) {
			pi = len(sig.Params) - 1
		}
		okType := false
		for _, t := range sig.Params[pi] {
			if HasType(a, t) {
				okType = true
				break
			}
		}
		if !okType {
			return ErrInvalidType
		}
	}
	return nil
}

func (ev *Ev) call(name string, args []interface{}) (interface{}, error) {
	if err := CheckCall(name, args); err != nil {
		ev.count("call.error")
		return nil, err
	}
	ev.count("call." + name)
	switch name {
	case "abs":
		return math.Abs(args[0].(float64)), nil
	case "ceil":
		return math.Ceil(args[0].(float64)), nil
	case "floor":
		return math.Floor(args[0].(float64)), nil
	case "avg", "sum":
		items, bag, _ := elems(args[0])
		if name == "avg" && len(items) == 0 {
			return nil, nil
		}
		if bag && !exactSummable(items) {
			ev.amb("floating-point sum over an unordered member list")
		}
		s := 0.0
		for _, e := range items {
			s += e.(float64)
			if math.IsInf(s, 0) || math.IsNaN(s) {
				// JSON has no such number and the specification does not say what happens
				ev.amb("arithmetic overflow: the sum leaves the range of JSON numbers")
				break
			}
		}
		if name == "avg" {
			return s / float64(len(items)), nil
		}
		return s, nil
	case "contains":
		if _, isText := args[0].(TextOf); isText {
			ev.amb("contains on implementation-specific text")
			return nil, nil
		}
		if s, ok := args[0].(string); ok {
			switch needle := args[1].(type) {
			case string:
				return strings.Contains(s, needle), nil
			case TextOf:
				ev.amb("contains with implementation-specific text")
				return nil, nil
			}
			ev.amb("contains(string, non-string) is unspecified")
			return false, nil
		}
		items, _, _ := elems(args[0])
		found := false
		for _, e := range items {
			if PossiblyEqual(e, args[1]) {
				if HasSpecial(e) || HasSpecial(args[1]) {
					ev.amb("contains comparing unordered lists")
				}
				found = true
			}
		}
		return found, nil
	case "ends_with", "starts_with":
		a, ok1 := args[0].(string)
		b, ok2 := args[1].(string)
		if !ok1 || !ok2 {
			ev.amb(name + " on implementation-specific text")
			return nil, nil
		}
		if name == "ends_with" {
			return strings.HasSuffix(a, b), nil
		}
		return strings.HasPrefix(a, b), nil
	case "join":
		sep, ok := args[0].(string)
		if !ok {
			ev.amb("join with implementation-specific text")
			return nil, nil
		}
		items, bag, _ := elems(args[1])
		if bag {
			ev.amb("join over an unordered member list")
		}
		var sb strings.Builder
		for i, e := range items {
			s, ok := e.(string)
			if !ok {
				ev.amb("join of implementation-specific text")
				return nil, nil
			}
			if i > 0 {
				sb.WriteString(sep)
			}
			sb.WriteString(s)
		}
		return sb.String(), nil
	case "keys":
		m := args[0].(map[string]interface{})
		out := make([]interface{}, 0, len(m))
		for _, k := range SortedKeys(m) {
			out = append(out, k)
		}
		return mkBag(out), nil
	case "values":
		m := args[0].(map[string]interface{})
		out := make([]interface{}, 0, len(m))
		for _, k := range SortedKeys(m) {
			out = append(out, m[k])
		}
		return mkBag(out), nil
	case "length":
		switch t := args[0].(type) {
		case string:
			return float64(len([]rune(t))), nil
		case TextOf:
			ev.amb("length of implementation-specific text")
			return nil, nil
		case map[string]interface{}:
			ev.count("length.object")
			return float64(len(t)), nil
		}
		items, _, _ := elems(args[0])
		return float64(len(items)), nil
	case "map":
		ref := args[0].(ExpRef)
		items, bag, _ := elems(args[1])
		out := make([]interface{}, 0, len(items))
		for _, e := range items {
			v, err := ev.Eval(ref.N, e)
			if err != nil {
				return nil, err
			}
			out = append(out, v)
		}
		return rebuild(out, bag), nil
	case "max", "min":
		items, _, _ := elems(args[0])
		if len(items) == 0 {
			return nil, nil
		}
		best := items[0]
		for _, e := range items[1:] {
			c, ok := compareScalars(e, best)
			if !ok {
				ev.amb(name + " over implementation-specific text")
				return nil, nil
			}
			if (name == "max" && c > 0) || (name == "min" && c < 0) {
				best = e
			}
		}
		return best, nil
	case "max_by", "min_by", "sort_by":
		return ev.byExpr(name, args[0], args[1].(ExpRef))
	case "merge":
		out := map[string]interface{}{}
		for _, a := range args {
			m := a.(map[string]interface{})
			for k, v := range m {
				out[k] = v
			}
		}
		return out, nil
	case "not_null":
		for _, a := range args {
			if a != nil {
				return a, nil
			}
		}
		return nil, nil
	case "reverse":
		switch t := args[0].(type) {
		case string:
			r := []rune(t)
			out := make([]rune, len(r))
			for i, c := range r {
				out[len(r)-1-i] = c
			}
			return string(out), nil
		case TextOf:
			ev.amb("reverse of implementation-specific text")
			return nil, nil
		}
		items, bag, _ := elems(args[0])
		out := make([]interface{}, len(items))
		for i, e := range items {
			out[len(items)-1-i] = e
		}
		return rebuild(out, bag), nil
	case "sort":
		items, _, _ := elems(args[0])
		out := append([]interface{}{}, items...)
		// insertion sort, ascending
		for i := 1; i < len(out); i++ {
			for j := i; j > 0; j-- {
				c, ok := compareScalars(out[j], out[j-1])
				if !ok {
					ev.amb("sort of implementation-specific text")
					return nil, nil
				}
				if c < 0 {
					out[j], out[j-1] = out[j-1], out[j]
				} else {
					break
				}
			}
		}
		return out, nil
	case "to_array":
		if _, _, ok := elems(args[0]); ok {
			return args[0], nil
		}
		return []interface{}{args[0]}, nil
	case "to_string":
		if isString(args[0]) {
			return args[0], nil
		}
		return TextOf{V: args[0]}, nil
	case "to_number":
		switch t := args[0].(type) {
		case float64:
			return t, nil
		case string:
			return ev.toNumber(t), nil
		case TextOf:
			ev.amb("to_number of implementation-specific text")
			return nil, nil
		}
		return nil, nil
	case "type":
		return TypeName(args[0]), nil
	}
	return nil, ErrUnknownFunction
}

var jsonNumberRE = regexp.MustCompile(`^-?(0|[1-9][0-9]*)(\.[0-9]+)?([eE][+-]?[0-9]+)?$`)

// IsJSONNumber reports whether s is spelled by the JSON number production.
func IsJSONNumber(s string) bool { return jsonNumberRE.MatchString(s) }

func (ev *Ev) toNumber(s string) interface{} {
	if IsJSONNumber(s) {
		f, err := strconv.ParseFloat(s, 64)
		if err == nil && !math.IsInf(f, 0) && !math.IsNaN(f) {
			return f
		}
		ev.amb("to_number of a JSON number outside the float64 range")
		return nil
	}
	if !ClearlyNotNumeric(s) {
		ev.amb("to_number of a string that is not a JSON number but looks numeric to some parsers")
	}
	return nil
}

// ClearlyNotNumeric: no digit and no inf/nan spelling: every parser yields null.
func ClearlyNotNumeric(s string) bool {
	if strings.ContainsAny(s, "0123456789") {
		return false
	}
	l := strings.ToLower(s)
	return !strings.Contains(l, "inf") && !strings.Contains(l, "nan")
}

func exactSummable(items []interface{}) bool {
	for _, e := range items {
		f := e.(float64)
		if f != math.Trunc(f) || math.Abs(f) >= 1<<40 {
			return false
		}
	}
	return true
}

// compareScalars orders two numbers numerically or two strings by code point.
func compareScalars(a, b interface{}) (int, bool) {
	switch x := a.(type) {
	case float64:
		y := b.(float64)
		switch {
		case x < y:
			return -1, true
		case x > y:
			return 1, true
		}
		return 0, true
	case string:
		y, ok := b.(string)
		if !ok {
			return 0, false
		}
		return compareCodePoints(x, y), true
	}
	return 0, false
}

func compareCodePoints(a, b string) int {
	ra, rb := []rune(a), []rune(b)
	for i := 0; i < len(ra) && i < len(rb); i++ {
		if ra[i] != rb[i] {
			if ra[i] < rb[i] {
				return -1
			}
			return 1
		}
	}
	switch {
	case len(ra) < len(rb):
		return -1
	case len(ra) > len(rb):
		return 1
	}
	return 0
}

// byExpr implements sort_by, max_by and min_by.
func (ev *Ev) byExpr(name string, arr interface{}, ref ExpRef) (interface{}, error) {
	items, bag, _ := elems(arr)
	if len(items) == 0 {
		if name == "sort_by" {
			return []interface{}{}, nil
		}
		return nil, nil
	}
	keys := make([]interface{}, len(items))
	kind := byte(0)
	for i, e := range items {
		k, err := ev.Eval(ref.N, e)
		if err != nil {
			return nil, err
		}
		var kk byte
		switch k.(type) {
		case float64:
			kk = 'n'
		case string:
			kk = 's'
		case TextOf:
			ev.amb("by-expression key is implementation-specific text")
			return nil, nil
		default:
			ev.count("byexpr.badkey")
			return nil, ErrInvalidType
		}
		if kind == 0 {
			kind = kk
		} else if kind != kk {
			ev.count("byexpr.mixedkey")
			return nil, ErrInvalidType
		}
		keys[i] = k
	}
	if name == "sort_by" {
		idx := make([]int, len(items))
		for i := range idx {
			idx[i] = i
		}
		ties := false
		// stable insertion sort on indices
		for i := 1; i < len(idx); i++ {
			for j := i; j > 0; j-- {
				c, _ := compareScalars(keys[idx[j]], keys[idx[j-1]])
				if c < 0 {
					idx[j], idx[j-1] = idx[j-1], idx[j]
				} else {
					break
				}
			}
		}
		out := make([]interface{}, len(items))
		for i, k := range idx {
			out[i] = items[k]
			if i > 0 {
				if c, _ := compareScalars(keys[idx[i]], keys[idx[i-1]]); c == 0 {
					ties = true
				}
			}
		}
		if ties {
			ev.count("sort_by.ties")
			if bag {
				ev.amb("sort_by with tied keys over an unordered member list")
			}
		}
		return out, nil
	}
	best := 0
	tie := false
	for i := 1; i < len(items); i++ {
		c, _ := compareScalars(keys[i], keys[best])
		if (name == "max_by" && c > 0) || (name == "min_by" && c < 0) {
			best = i
			tie = false
		} else if c == 0 {
			tie = true
		}
	}
	if tie {
		ev.count(name + ".ties")
		if bag {
			ev.amb(name + " with a tied extremum over an unordered member list")
		}
	}
	return items[best], nil
}

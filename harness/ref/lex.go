package ref

import (
	"encoding/json"
	"math/big"
	"strings"
	"unicode/utf8"
)

// Kind is a token class of the JMESPath grammar.
type Kind int

const (
	TUnquoted Kind = iota
	TQuoted
	TNumber
	TStar
	TDot
	TLbracket
	TRbracket
	TFlatten
	TFilter
	TLparen
	TRparen
	TLbrace
	TRbrace
	TComma
	TColon
	TCmp
	TOr
	TAnd
	TPipe
	TNot
	TExpref
	TCurrent
	TLiteral
	TRaw
	TEOF
	NumKinds
)

var kindNames = [...]string{"unquoted", "quoted", "number", "*", ".", "[", "]", "[]", "[?", "(", ")", "{", "}", ",", ":", "cmp", "||", "&&", "|", "!", "&", "@", "literal", "raw", "eof"}

func (k Kind) String() string { return kindNames[k] }

// Token is one lexeme. Text is the spelling; Str the denoted name/string for
// identifiers and raw strings; Lit the decoded JSON literal; Num the integer.
type Token struct {
	Kind Kind
	Text string
	Str  string
	Lit  interface{}
	Num  *big.Int
	Pos  int
}

// LexStatus classifies the outcome of lexing.
type LexStatus int

const (
	LexOK          LexStatus = iota
	LexError                 // not a sequence of JMESPath tokens: must be rejected
	LexOutOfDomain           // implementation-limit or unspecified territory: no accept/reject verdict
)

func isIdentStart(c byte) bool {
	return c == '_' || (c >= 'A' && c <= 'Z') || (c >= 'a' && c <= 'z')
}
func isIdentCont(c byte) bool { return isIdentStart(c) || (c >= '0' && c <= '9') }

var maxInt64 = new(big.Int).SetUint64(1<<63 - 1)
var minInt64 = new(big.Int).Neg(new(big.Int).SetUint64(1 << 63))

// Lex splits text into tokens following the terminals of the specification.
// why explains a non-OK status.
func Lex(text string) (toks []Token, st LexStatus, why string) {
	if !utf8.ValidString(text) {
		return nil, LexOutOfDomain, "invalid UTF-8"
	}
	outOfDomain := ""
	i := 0
	n := len(text)
	for i < n {
		c := text[i]
		switch {
		case c == ' ' || c == '\t' || c == '\n' || c == '\r':
			i++
		case isIdentStart(c):
			j := i + 1
			for j < n && isIdentCont(text[j]) {
				j++
			}
			toks = append(toks, Token{Kind: TUnquoted, Text: text[i:j], Str: text[i:j], Pos: i})
			i = j
		case c == '-' || (c >= '0' && c <= '9'):
			j := i + 1
			for j < n && text[j] >= '0' && text[j] <= '9' {
				j++
			}
			lex := text[i:j]
			if lex == "-" {
				return nil, LexError, "bare minus"
			}
			v, _ := new(big.Int).SetString(lex, 10)
			if v.Cmp(maxInt64) > 0 || v.Cmp(minInt64) < 0 {
				outOfDomain = WhyBigInt
			}
			toks = append(toks, Token{Kind: TNumber, Text: lex, Num: v, Pos: i})
			i = j
		case c == '"':
			j, ok := scanDelimited(text, i+1, '"')
			if !ok {
				return nil, LexError, "unclosed quoted identifier"
			}
			body := text[i+1 : j]
			var s string
			if err := json.Unmarshal([]byte(`"`+body+`"`), &s); err != nil {
				return nil, LexError, "quoted identifier is not a JSON string"
			}
			toks = append(toks, Token{Kind: TQuoted, Text: text[i : j+1], Str: s, Pos: i})
			i = j + 1
		case c == '\'':
			// raw string: \' denotes ', everything else is verbatim.
			var sb strings.Builder
			j := i + 1
			closed := false
			for j < n {
				if text[j] == '\\' && j+1 < n && text[j+1] == '\'' {
					sb.WriteByte('\'')
					j += 2
					continue
				}
				if text[j] == '\'' {
					closed = true
					break
				}
				sb.WriteByte(text[j])
				j++
			}
			if !closed {
				return nil, LexError, "unclosed raw string"
			}
			toks = append(toks, Token{Kind: TRaw, Text: text[i : j+1], Str: sb.String(), Pos: i})
			i = j + 1
		case c == '`':
			j, ok := scanDelimited(text, i+1, '`')
			if !ok {
				return nil, LexError, "unclosed literal"
			}
			body := strings.Replace(text[i+1:j], "\\`", "`", -1)
			v, err := ParseJSON(body)
			if err != nil {
				if looksLikeRangeError(err) {
					outOfDomain = "JSON number beyond float64"
					v = nil
				} else {
					return nil, LexError, "literal is not JSON"
				}
			}
			if hasDuplicateKeys(body) {
				outOfDomain = "duplicate keys in JSON literal"
			}
			toks = append(toks, Token{Kind: TLiteral, Text: text[i : j+1], Lit: v, Pos: i})
			i = j + 1
		default:
			k, w := punct(text[i:])
			if w == 0 {
				return nil, LexError, "character outside the token alphabet"
			}
			toks = append(toks, Token{Kind: k, Text: text[i : i+w], Pos: i})
			i += w
		}
	}
	if outOfDomain != "" {
		return toks, LexOutOfDomain, outOfDomain
	}
	return toks, LexOK, ""
}

func looksLikeRangeError(err error) bool {
	_, ok := err.(*json.UnmarshalTypeError)
	return ok
}

// scanDelimited finds the closing delimiter; a backslash escapes the next character.
func scanDelimited(text string, from int, delim byte) (int, bool) {
	j := from
	for j < len(text) {
		if text[j] == '\\' {
			j += 2
			continue
		}
		if text[j] == delim {
			return j, true
		}
		j++
	}
	return 0, false
}

func punct(s string) (Kind, int) {
	two := ""
	if len(s) >= 2 {
		two = s[:2]
	}
	switch two {
	case "[]":
		return TFlatten, 2
	case "[?":
		return TFilter, 2
	case "||":
		return TOr, 2
	case "&&":
		return TAnd, 2
	case "==", "!=", "<=", ">=":
		return TCmp, 2
	}
	switch s[0] {
	case '*':
		return TStar, 1
	case '.':
		return TDot, 1
	case '[':
		return TLbracket, 1
	case ']':
		return TRbracket, 1
	case '(':
		return TLparen, 1
	case ')':
		return TRparen, 1
	case '{':
		return TLbrace, 1
	case '}':
		return TRbrace, 1
	case ',':
		return TComma, 1
	case ':':
		return TColon, 1
	case '<', '>':
		return TCmp, 1
	case '|':
		return TPipe, 1
	case '!':
		return TNot, 1
	case '&':
		return TExpref, 1
	case '@':
		return TCurrent, 1
	}
	return 0, 0
}

// hasDuplicateKeys reports whether some object in the JSON text repeats a key.
func hasDuplicateKeys(text string) bool {
	d := json.NewDecoder(strings.NewReader(text))
	type frame struct {
		isObj   bool
		keys    map[string]bool
		wantKey bool
	}
	var stack []*frame
	for {
		tok, err := d.Token()
		if err != nil {
			return false
		}
		top := func() *frame {
			if len(stack) == 0 {
				return nil
			}
			return stack[len(stack)-1]
		}
		switch t := tok.(type) {
		case json.Delim:
			switch t {
			case '{':
				if f := top(); f != nil && f.isObj {
					f.wantKey = true
				}
				stack = append(stack, &frame{isObj: true, keys: map[string]bool{}, wantKey: true})
			case '[':
				if f := top(); f != nil && f.isObj {
					f.wantKey = true
				}
				stack = append(stack, &frame{})
			case '}', ']':
				stack = stack[:len(stack)-1]
			}
		case string:
			if f := top(); f != nil && f.isObj && f.wantKey {
				if f.keys[t] {
					return true
				}
				f.keys[t] = true
				f.wantKey = false
				continue
			}
			if f := top(); f != nil && f.isObj {
				f.wantKey = true
			}
		default:
			if f := top(); f != nil && f.isObj {
				f.wantKey = true
			}
		}
	}
}

// Kinds extracts the token classes.
func Kinds(toks []Token) []Kind {
	ks := make([]Kind, len(toks))
	for i, t := range toks {
		ks[i] = t.Kind
	}
	return ks
}

// WhyBigInt: the out-of-domain reason for an integer beyond int64. An implementation may refuse
// such a text; the meaning it has if accepted is fixed all the same (see satInt64).
const WhyBigInt = "integer beyond int64"

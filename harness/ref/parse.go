package ref

import (
	"fmt"
	"math"
	"math/big"
	"strconv"
	"strings"
)

// Node is a node of the reference AST. Its vocabulary follows the node kinds
// observable through the library's AST dump so that parses can be compared
// structurally.
type Node struct {
	T  string      // Field, Literal, Current, Identity, Sub, IndexExpr, Index, Slice, Projection, Flatten, ValueProjection, FilterProjection, Or, And, Not, Comparator, Pipe, List, Hash, KeyVal, Function, ExpRef
	S  string      // field name / function name / key / comparator spelling
	I  int64       // index
	Sl [3]*int64   // slice parts
	V  interface{} // literal value
	K  []*Node
}

// Laxity switches: each reproduces exactly one open known finding of the library.
type Lax struct {
	ExprefAnywhere             bool // KF-P6: '&' accepted as a general prefix operator
	MultiSelectAfterProjection bool // KF-P7: projection right-hand side may start with '[' multi-select
}

// ParseError is returned for a token sequence that is not a sentence.
type ParseError struct {
	Msg string
	Pos int // token index
}

func (e *ParseError) Error() string { return fmt.Sprintf("parse error at token %d: %s", e.Pos, e.Msg) }

var lbp = map[Kind]int{
	TPipe: 1, TOr: 2, TAnd: 3, TCmp: 5, TFlatten: 9, TStar: 20, TFilter: 21,
	TDot: 40, TNot: 45, TLbrace: 50, TLbracket: 55, TLparen: 60,
}

type parser struct {
	toks []Token
	i    int
	lax  Lax
	// usedLax records which switches were actually exercised.
	usedP6, usedP7 bool
}

// Parse parses a token sequence (without EOF) strictly.
func Parse(toks []Token) (*Node, error) {
	n, _, err := ParseLax(toks, Lax{})
	return n, err
}

// ParseLax parses with the given laxity switches and reports which were used.
func ParseLax(toks []Token, lax Lax) (*Node, Lax, error) {
	p := &parser{lax: lax}
	p.toks = make([]Token, 0, len(toks)+1)
	p.toks = append(p.toks, toks...)
	p.toks = append(p.toks, Token{Kind: TEOF, Pos: -1})
	n, err := p.expr(0)
	if err != nil {
		return nil, Lax{}, err
	}
	if p.cur() != TEOF {
		return nil, Lax{}, p.errf("unexpected token %s after the expression", p.cur())
	}
	return n, Lax{ExprefAnywhere: p.usedP6, MultiSelectAfterProjection: p.usedP7}, nil
}

// ParseText lexes and parses strictly. The LexStatus tells whether the text is
// in the domain at all.
func ParseText(text string) (*Node, LexStatus, error) {
	toks, st, why := Lex(text)
	if st == LexError {
		return nil, st, &ParseError{Msg: "lexical: " + why}
	}
	n, err := Parse(toks)
	return n, st, err
}

func (p *parser) cur() Kind { return p.toks[p.i].Kind }
func (p *parser) peek(k int) Kind {
	if p.i+k >= len(p.toks) {
		return TEOF
	}
	return p.toks[p.i+k].Kind
}
func (p *parser) errf(f string, a ...interface{}) error {
	return &ParseError{Msg: fmt.Sprintf(f, a...), Pos: p.i}
}
func (p *parser) match(k Kind) error {
	if p.cur() == k {
		p.i++
		return nil
	}
	return p.errf("expected %s, found %s", k, p.cur())
}

func (p *parser) expr(rbp int) (*Node, error) {
	tok := p.toks[p.i]
	p.i++
	left, err := p.nud(tok)
	if err != nil {
		return nil, err
	}
	for rbp < lbp[p.cur()] {
		k := p.toks[p.i]
		p.i++
		left, err = p.led(k, left)
		if err != nil {
			return nil, err
		}
	}
	return left, nil
}

func identity() *Node { return &Node{T: "Identity"} }

func (p *parser) nud(tok Token) (*Node, error) {
	switch tok.Kind {
	case TLiteral:
		return &Node{T: "Literal", V: tok.Lit}, nil
	case TRaw:
		return &Node{T: "Literal", V: tok.Str}, nil
	case TUnquoted:
		return &Node{T: "Field", S: tok.Str}, nil
	case TQuoted:
		if p.cur() == TLparen {
			p.i--
			return nil, p.errf("quoted identifier cannot name a function")
		}
		return &Node{T: "Field", S: tok.Str}, nil
	case TCurrent:
		return &Node{T: "Current"}, nil
	case TStar:
		var right *Node
		var err error
		if p.cur() == TRbracket {
			right = identity()
		} else if right, err = p.projRHS(lbp[TStar]); err != nil {
			return nil, err
		}
		return &Node{T: "ValueProjection", K: []*Node{identity(), right}}, nil
	case TFilter:
		return p.filter(identity())
	case TLbrace:
		return p.hash()
	case TFlatten:
		right, err := p.projRHS(lbp[TFlatten])
		if err != nil {
			return nil, err
		}
		return &Node{T: "Projection", K: []*Node{{T: "Flatten", K: []*Node{identity()}}, right}}, nil
	case TLbracket:
		switch {
		case p.cur() == TNumber || p.cur() == TColon:
			right, err := p.indexOrSlice()
			if err != nil {
				return nil, err
			}
			return p.projectIfSlice(identity(), right)
		case p.cur() == TStar && p.peek(1) == TRbracket:
			p.i += 2
			right, err := p.projRHS(lbp[TStar])
			if err != nil {
				return nil, err
			}
			return &Node{T: "Projection", K: []*Node{identity(), right}}, nil
		default:
			return p.list()
		}
	case TExpref:
		// strict: '&' is legal only at the start of a function argument (exprArg).
		if !p.lax.ExprefAnywhere {
			return nil, &ParseError{Msg: "'&' outside a function argument", Pos: p.i - 1}
		}
		p.usedP6 = true
		e, err := p.expr(0)
		if err != nil {
			return nil, err
		}
		return &Node{T: "ExpRef", K: []*Node{e}}, nil
	case TNot:
		e, err := p.expr(lbp[TNot])
		if err != nil {
			return nil, err
		}
		return &Node{T: "Not", K: []*Node{e}}, nil
	case TLparen:
		e, err := p.expr(0)
		if err != nil {
			return nil, err
		}
		if err := p.match(TRparen); err != nil {
			return nil, err
		}
		return e, nil
	case TEOF:
		p.i--
		return nil, p.errf("incomplete expression")
	}
	p.i--
	return nil, p.errf("token %s cannot start an expression", tok.Kind)
}

// exprArg parses one function argument: an expression or '&' expression.
func (p *parser) exprArg() (*Node, error) {
	if p.cur() == TExpref {
		p.i++
		e, err := p.expr(0)
		if err != nil {
			return nil, err
		}
		return &Node{T: "ExpRef", K: []*Node{e}}, nil
	}
	return p.expr(0)
}

func (p *parser) led(tok Token, left *Node) (*Node, error) {
	switch tok.Kind {
	case TDot:
		if p.cur() != TStar {
			right, err := p.dotRHS(lbp[TDot])
			if err != nil {
				return nil, err
			}
			return &Node{T: "Sub", K: []*Node{left, right}}, nil
		}
		p.i++
		// The right-hand side of an object-wildcard projection extends like that
		// of every other wildcard projection (until a looser operator).
		right, err := p.projRHS(lbp[TStar])
		if err != nil {
			return nil, err
		}
		return &Node{T: "ValueProjection", K: []*Node{left, right}}, nil
	case TPipe, TOr, TAnd:
		right, err := p.expr(lbp[tok.Kind])
		if err != nil {
			return nil, err
		}
		name := map[Kind]string{TPipe: "Pipe", TOr: "Or", TAnd: "And"}[tok.Kind]
		return &Node{T: name, K: []*Node{left, right}}, nil
	case TCmp:
		right, err := p.expr(lbp[TCmp])
		if err != nil {
			return nil, err
		}
		return &Node{T: "Comparator", S: tok.Text, K: []*Node{left, right}}, nil
	case TLparen:
		// strict: the callee must be an unquoted identifier written directly before '('.
		if p.i < 2 || p.toks[p.i-2].Kind != TUnquoted || left.T != "Field" {
			p.i--
			return nil, p.errf("only an unquoted identifier can be called")
		}
		var args []*Node
		if p.cur() != TRparen {
			for {
				a, err := p.exprArg()
				if err != nil {
					return nil, err
				}
				args = append(args, a)
				if p.cur() == TComma {
					p.i++
					continue
				}
				break
			}
		}
		if err := p.match(TRparen); err != nil {
			return nil, err
		}
		return &Node{T: "Function", S: left.S, K: args}, nil
	case TFilter:
		return p.filter(left)
	case TFlatten:
		right, err := p.projRHS(lbp[TFlatten])
		if err != nil {
			return nil, err
		}
		return &Node{T: "Projection", K: []*Node{{T: "Flatten", K: []*Node{left}}, right}}, nil
	case TLbracket:
		if p.cur() == TNumber || p.cur() == TColon {
			right, err := p.indexOrSlice()
			if err != nil {
				return nil, err
			}
			return p.projectIfSlice(left, right)
		}
		if err := p.match(TStar); err != nil {
			return nil, err
		}
		if err := p.match(TRbracket); err != nil {
			return nil, err
		}
		right, err := p.projRHS(lbp[TStar])
		if err != nil {
			return nil, err
		}
		return &Node{T: "Projection", K: []*Node{left, right}}, nil
	}
	p.i--
	return nil, p.errf("token %s cannot continue an expression", tok.Kind)
}

func (p *parser) projectIfSlice(left, right *Node) (*Node, error) {
	ie := &Node{T: "IndexExpr", K: []*Node{left, right}}
	if right.T == "Slice" {
		rhs, err := p.projRHS(lbp[TStar])
		if err != nil {
			return nil, err
		}
		return &Node{T: "Projection", K: []*Node{ie, rhs}}, nil
	}
	return ie, nil
}

func (p *parser) projRHS(bp int) (*Node, error) {
	switch {
	case lbp[p.cur()] < 10:
		return identity(), nil
	case p.cur() == TLbracket:
		nx := p.peek(1)
		strictOK := nx == TNumber || nx == TColon || (nx == TStar && p.peek(2) == TRbracket)
		if !strictOK {
			if !p.lax.MultiSelectAfterProjection {
				return nil, p.errf("a projection cannot be followed by a multi-select list without a dot")
			}
			p.usedP7 = true
		}
		return p.expr(bp)
	case p.cur() == TFilter:
		return p.expr(bp)
	case p.cur() == TDot:
		p.i++
		return p.dotRHS(bp)
	}
	return nil, p.errf("token %s cannot follow a projection", p.cur())
}

func (p *parser) dotRHS(bp int) (*Node, error) {
	switch p.cur() {
	case TUnquoted, TQuoted, TStar:
		return p.expr(bp)
	case TLbracket:
		p.i++
		return p.list()
	case TLbrace:
		p.i++
		return p.hash()
	}
	return nil, p.errf("expected identifier, '*', '[' or '{' after '.'")
}

func (p *parser) filter(left *Node) (*Node, error) {
	cond, err := p.expr(0)
	if err != nil {
		return nil, err
	}
	if err := p.match(TRbracket); err != nil {
		return nil, err
	}
	var right *Node
	if p.cur() == TFlatten {
		right = identity()
	} else if right, err = p.projRHS(lbp[TFilter]); err != nil {
		return nil, err
	}
	return &Node{T: "FilterProjection", K: []*Node{left, right, cond}}, nil
}

func (p *parser) list() (*Node, error) {
	var kids []*Node
	for {
		e, err := p.expr(0)
		if err != nil {
			return nil, err
		}
		kids = append(kids, e)
		if p.cur() == TComma {
			p.i++
			continue
		}
		break
	}
	if err := p.match(TRbracket); err != nil {
		return nil, err
	}
	return &Node{T: "List", K: kids}, nil
}

func (p *parser) hash() (*Node, error) {
	var kids []*Node
	for {
		if p.cur() != TUnquoted && p.cur() != TQuoted {
			return nil, p.errf("expected a key")
		}
		key := p.toks[p.i].Str
		p.i++
		if err := p.match(TColon); err != nil {
			return nil, err
		}
		e, err := p.expr(0)
		if err != nil {
			return nil, err
		}
		kids = append(kids, &Node{T: "KeyVal", S: key, K: []*Node{e}})
		if p.cur() == TComma {
			p.i++
			continue
		}
		break
	}
	if err := p.match(TRbrace); err != nil {
		return nil, err
	}
	return &Node{T: "Hash", K: kids}, nil
}

func (p *parser) indexOrSlice() (*Node, error) {
	// number ] | number? : number? ( : number? )? ]
	if p.cur() == TNumber && p.peek(1) != TColon {
		n := p.toks[p.i]
		p.i++
		if err := p.match(TRbracket); err != nil {
			return nil, err
		}
		return &Node{T: "Index", I: satInt64(n.Num)}, nil
	}
	var parts [3]*int64
	idx := 0
	for p.cur() != TRbracket {
		switch p.cur() {
		case TColon:
			idx++
			if idx > 2 {
				return nil, p.errf("too many colons in slice")
			}
			p.i++
		case TNumber:
			if parts[idx] != nil {
				return nil, p.errf("two numbers without a colon in slice")
			}
			v := satInt64(p.toks[p.i].Num)
			parts[idx] = &v
			p.i++
		default:
			return nil, p.errf("expected ':' or number in slice, found %s", p.cur())
		}
	}
	p.i++
	return &Node{T: "Slice", Sl: parts}, nil
}

// Dump renders the AST in the vocabulary of the library's verif hook.
func Dump(n *Node) string {
	var sb strings.Builder
	dump(&sb, n)
	return sb.String()
}

var cmpNames = map[string]string{"==": "tEQ", "!=": "tNE", "<": "tLT", "<=": "tLTE", ">": "tGT", ">=": "tGTE"}

func dump(sb *strings.Builder, n *Node) {
	w := func(s string) { sb.WriteString(s) }
	kids := func() {
		for _, k := range n.K {
			w(" ")
			dump(sb, k)
		}
	}
	switch n.T {
	case "Field":
		w("(ASTField " + strconv.Quote(n.S) + ")")
	case "Literal":
		w("(ASTLiteral " + DumpLiteral(n.V) + ")")
	case "Current":
		w("(ASTCurrentNode)")
	case "Identity":
		w("(ASTIdentity)")
	case "Sub":
		w("(ASTSubexpression")
		kids()
		w(")")
	case "IndexExpr":
		w("(ASTIndexExpression")
		kids()
		w(")")
	case "Index":
		w("(ASTIndex " + strconv.FormatInt(n.I, 10) + ")")
	case "Slice":
		parts := make([]string, 3)
		for i, p := range n.Sl {
			if p == nil {
				parts[i] = "_"
			} else {
				parts[i] = strconv.FormatInt(*p, 10)
			}
		}
		w("(ASTSlice " + strings.Join(parts, ":") + ")")
	case "Projection":
		w("(ASTProjection")
		kids()
		w(")")
	case "Flatten":
		w("(ASTFlatten")
		kids()
		w(")")
	case "ValueProjection":
		w("(ASTValueProjection")
		kids()
		w(")")
	case "FilterProjection":
		w("(ASTFilterProjection")
		kids()
		w(")")
	case "Or":
		w("(ASTOrExpression")
		kids()
		w(")")
	case "And":
		w("(ASTAndExpression")
		kids()
		w(")")
	case "Not":
		w("(ASTNotExpression")
		kids()
		w(")")
	case "Comparator":
		w("(ASTComparator " + cmpNames[n.S])
		kids()
		w(")")
	case "Pipe":
		w("(ASTPipe")
		kids()
		w(")")
	case "List":
		w("(ASTMultiSelectList")
		kids()
		w(")")
	case "Hash":
		w("(ASTMultiSelectHash")
		kids()
		w(")")
	case "KeyVal":
		w("(ASTKeyValPair " + strconv.Quote(n.S))
		kids()
		w(")")
	case "Function":
		w("(ASTFunctionExpression " + strconv.Quote(n.S))
		kids()
		w(")")
	case "ExpRef":
		w("(ASTExpRef")
		kids()
		w(")")
	default:
		w("(?" + n.T + ")")
	}
}

// DumpLiteral renders a decoded JSON value as the hook does (encoding/json,
// compact, sorted keys).
func DumpLiteral(v interface{}) string {
	b, err := jsonMarshal(v)
	if err != nil {
		return "<unmarshalable>"
	}
	return string(b)
}

// satInt64: the grammar puts no bound on integers; one beyond int64 means the same as the nearest
// int64 in every position an integer can take (index: out of range for any array; slice bound:
// clamped to the end; step: at most the first element is reached).
func satInt64(n *big.Int) int64 {
	if n.IsInt64() {
		return n.Int64()
	}
	if n.Sign() < 0 {
		return math.MinInt64
	}
	return math.MaxInt64
}

package ref

import (
	"fmt"
	"regexp"
	"strconv"
	"strings"
)

var unquotedRE = regexp.MustCompile(`^[A-Za-z_][A-Za-z0-9_]*$`)

// IsUnquotedIdentifier reports whether s can be written as an unquoted identifier.
func IsUnquotedIdentifier(s string) bool { return unquotedRE.MatchString(s) }

// SpellIdentifier spells a name as an identifier token (unquoted when possible).
func SpellIdentifier(s string) string {
	if IsUnquotedIdentifier(s) {
		return s
	}
	return QuoteJSON(s)
}

// SpellLiteral spells a JSON value as a backtick literal.
func SpellLiteral(v interface{}) string {
	return "`" + strings.Replace(Canon(v), "`", "\\`", -1) + "`"
}

// CanGlue reports whether two lexemes may be written without whitespace between
// them and still be read as the same two tokens.
func CanGlue(a, b string) bool {
	toks, st, _ := Lex(a + b)
	if st == LexError || len(toks) != 2 {
		return false
	}
	return toks[0].Text == a && toks[1].Text == b
}

// Render joins lexemes. sep(i) gives the whitespace to place before lexeme i
// (i >= 1); when it returns "" and the two lexemes cannot be glued a single
// space is used instead.
func Render(lexemes []string, sep func(i int) string) string {
	var sb strings.Builder
	for i, l := range lexemes {
		if i > 0 {
			s := sep(i)
			if s == "" && !CanGlue(lexemes[i-1], l) {
				s = " "
			}
			sb.WriteString(s)
		}
		sb.WriteString(l)
	}
	return sb.String()
}

// RenderSpaced joins lexemes with single spaces.
func RenderSpaced(lexemes []string) string { return strings.Join(lexemes, " ") }

// RenderTight joins lexemes with the least whitespace that keeps them apart.
func RenderTight(lexemes []string) string {
	return Render(lexemes, func(int) string { return "" })
}

// Texts extracts the lexemes of a token list.
func Texts(toks []Token) []string {
	out := make([]string, len(toks))
	for i, t := range toks {
		out[i] = t.Text
	}
	return out
}

// ---------------------------------------------------------------------------
// AST printer. Every operand that is a complete expression is parenthesised
// (the "conservative" spelling); Minimal() then removes every pair whose
// removal leaves the parse unchanged.

type printer struct {
	out []string
	err error
}

func (p *printer) w(s ...string) { p.out = append(p.out, s...) }
func (p *printer) fail(n *Node, where string) {
	if p.err == nil {
		p.err = fmt.Errorf("cannot print %s node in %s position", n.T, where)
	}
}

func atomic(n *Node) bool {
	switch n.T {
	case "Field", "Literal", "Current", "List", "Hash", "Function":
		return true
	}
	return false
}

func (p *printer) field(n *Node) { p.w(SpellIdentifier(n.S)) }

func (p *printer) literal(n *Node) {
	p.w(SpellLiteral(n.V))
}

func slicePartsText(n *Node) []string {
	out := []string{}
	for i, s := range n.Sl {
		if i > 0 {
			if i == 2 && s == nil {
				break
			}
			out = append(out, ":")
		}
		if s != nil {
			out = append(out, strconv.FormatInt(*s, 10))
		}
	}
	return out
}

func (p *printer) operand(n *Node) {
	if atomic(n) {
		p.expr(n)
		return
	}
	p.w("(")
	p.expr(n)
	p.w(")")
}

// lhs prints the left operand of a bracket postfix: nothing for Identity.
func (p *printer) lhs(n *Node) {
	if n.T == "Identity" {
		return
	}
	p.operand(n)
}

func (p *printer) expr(n *Node) {
	switch n.T {
	case "Field":
		p.field(n)
	case "Literal":
		p.literal(n)
	case "Current":
		p.w("@")
	case "Sub":
		p.operand(n.K[0])
		p.w(".")
		p.dotrhs(n.K[1])
	case "IndexExpr":
		if n.K[1].T != "Index" {
			p.fail(n, "expression (slice outside projection)")
			return
		}
		p.lhs(n.K[0])
		p.w("[", strconv.FormatInt(n.K[1].I, 10), "]")
	case "Projection":
		l := n.K[0]
		switch {
		case l.T == "Flatten":
			p.lhs(l.K[0])
			p.w("[]")
		case l.T == "IndexExpr" && l.K[1].T == "Slice":
			p.lhs(l.K[0])
			p.w("[")
			p.w(slicePartsText(l.K[1])...)
			p.w("]")
		default:
			p.lhs(l)
			p.w("[", "*", "]")
		}
		p.rhs(n.K[1])
	case "ValueProjection":
		if n.K[0].T == "Identity" {
			p.w("*")
		} else {
			p.operand(n.K[0])
			p.w(".", "*")
		}
		p.rhs(n.K[1])
	case "FilterProjection":
		p.lhs(n.K[0])
		p.w("[?")
		p.expr(n.K[2])
		p.w("]")
		p.rhs(n.K[1])
	case "Or", "And", "Pipe", "Comparator":
		p.operand(n.K[0])
		switch n.T {
		case "Or":
			p.w("||")
		case "And":
			p.w("&&")
		case "Pipe":
			p.w("|")
		default:
			p.w(n.S)
		}
		p.operand(n.K[1])
	case "Not":
		p.w("!")
		p.operand(n.K[0])
	case "List":
		p.w("[")
		for i, k := range n.K {
			if i > 0 {
				p.w(",")
			}
			if len(n.K) == 1 && k.T == "ValueProjection" && k.K[0].T == "Identity" && k.K[1].T == "Identity" {
				// "[*]" would be read as the list wildcard
				p.w("(", "*", ")")
				continue
			}
			p.expr(k)
		}
		p.w("]")
	case "Hash":
		p.w("{")
		for i, kv := range n.K {
			if i > 0 {
				p.w(",")
			}
			p.w(SpellIdentifier(kv.S), ":")
			p.expr(kv.K[0])
		}
		p.w("}")
	case "Function":
		p.w(n.S, "(")
		for i, a := range n.K {
			if i > 0 {
				p.w(",")
			}
			if a.T == "ExpRef" {
				p.w("&")
				p.expr(a.K[0])
			} else {
				p.expr(a)
			}
		}
		p.w(")")
	case "ExpRef":
		p.w("&")
		p.expr(n.K[0])
	default:
		p.fail(n, "expression")
	}
}

// rhs prints the right-hand side of a projection.
func (p *printer) rhs(n *Node) {
	if n.T == "Identity" {
		return
	}
	p.chain(n)
}

// chain prints a projection right-hand side, which cannot contain parentheses
// on its spine: it is a sequence of postfix steps applied to the implicit element.
func (p *printer) chain(n *Node) {
	switch n.T {
	case "Identity":
		return
	case "Field", "List", "Hash", "Function":
		p.w(".")
		p.expr(n)
	case "Sub":
		p.chain(n.K[0])
		p.w(".")
		p.dotrhs(n.K[1])
	case "IndexExpr":
		if n.K[1].T != "Index" {
			p.fail(n, "rhs")
			return
		}
		p.chain(n.K[0])
		p.w("[", strconv.FormatInt(n.K[1].I, 10), "]")
	case "Projection":
		l := n.K[0]
		switch {
		case l.T == "Flatten":
			p.fail(n, "rhs (flatten)")
			return
		case l.T == "IndexExpr" && l.K[1].T == "Slice":
			p.chain(l.K[0])
			p.w("[")
			p.w(slicePartsText(l.K[1])...)
			p.w("]")
		default:
			p.chain(l)
			p.w("[", "*", "]")
		}
		p.rhs(n.K[1])
	case "FilterProjection":
		p.chain(n.K[0])
		p.w("[?")
		p.expr(n.K[2])
		p.w("]")
		p.rhs(n.K[1])
	case "ValueProjection":
		if n.K[0].T == "Identity" {
			p.w(".", "*")
		} else {
			p.chain(n.K[0])
			p.w(".", "*")
		}
		p.rhs(n.K[1])
	default:
		p.fail(n, "rhs")
	}
}

// dotrhs prints what follows a dot: an identifier possibly followed by bracket
// postfixes, a multi-select, a function call or a wildcard.
func (p *printer) dotrhs(n *Node) {
	switch n.T {
	case "Field", "List", "Hash", "Function":
		p.expr(n)
	case "ValueProjection":
		if n.K[0].T != "Identity" {
			p.fail(n, "dot-rhs")
			return
		}
		p.w("*")
		p.rhs(n.K[1])
	case "IndexExpr":
		if n.K[1].T != "Index" {
			p.fail(n, "dot-rhs")
			return
		}
		p.dotrhs(n.K[0])
		p.w("[", strconv.FormatInt(n.K[1].I, 10), "]")
	case "Projection":
		l := n.K[0]
		switch {
		case l.T == "Flatten":
			p.fail(n, "dot-rhs (flatten)")
			return
		case l.T == "IndexExpr" && l.K[1].T == "Slice":
			p.dotrhs(l.K[0])
			p.w("[")
			p.w(slicePartsText(l.K[1])...)
			p.w("]")
		default:
			p.dotrhs(l)
			p.w("[", "*", "]")
		}
		p.rhs(n.K[1])
	default:
		p.fail(n, "dot-rhs")
	}
}

// Conservative prints the AST with parentheses around every composite operand.
func Conservative(n *Node) ([]string, error) {
	p := &printer{}
	p.expr(n)
	return p.out, p.err
}

// Minimal removes from a lexeme list every parenthesis pair whose removal
// leaves the strict reference parse unchanged.
func Minimal(lexemes []string, want string) []string {
	cur := append([]string{}, lexemes...)
	for {
		removed := false
		// find matching pairs
		var stack []int
		type pair struct{ o, c int }
		var pairs []pair
		for i, l := range cur {
			if l == "(" {
				stack = append(stack, i)
			} else if l == ")" && len(stack) > 0 {
				o := stack[len(stack)-1]
				stack = stack[:len(stack)-1]
				pairs = append(pairs, pair{o, i})
			}
		}
		for _, pr := range pairs {
			// "(" directly after an unquoted identifier is a call, not grouping.
			cand := make([]string, 0, len(cur)-2)
			for i, l := range cur {
				if i == pr.o || i == pr.c {
					continue
				}
				cand = append(cand, l)
			}
			n, _, err := ParseText(RenderSpaced(cand))
			if err == nil && Dump(n) == want {
				cur = cand
				removed = true
				break
			}
		}
		if !removed {
			return cur
		}
	}
}

package ref

import "math/big"

// SliceIndices returns the indices selected by [start:stop:step] on a sequence
// of the given length, following CPython's PySlice_AdjustIndices and index
// stepping, computed on big integers so that no parameter can overflow.
// nil means "absent". A zero step is the invalid-value error.
func SliceIndices(length int, start, stop, step *big.Int) ([]int, error) {
	n := big.NewInt(int64(length))
	zero := big.NewInt(0)
	one := big.NewInt(1)
	minusOne := big.NewInt(-1)

	st := one
	if step != nil {
		st = step
	}
	if st.Sign() == 0 {
		return nil, ErrInvalidValue
	}
	neg := st.Sign() < 0

	var lo, hi *big.Int // clamping bounds for start/stop
	if neg {
		lo, hi = minusOne, new(big.Int).Sub(n, one)
	} else {
		lo, hi = zero, n
	}
	adjust := func(v *big.Int, dflt *big.Int) *big.Int {
		if v == nil {
			return dflt
		}
		r := new(big.Int).Set(v)
		if r.Sign() < 0 {
			r.Add(r, n)
			if r.Cmp(lo) < 0 {
				r.Set(lo)
			}
		} else if r.Cmp(hi) > 0 {
			r.Set(hi)
		}
		return r
	}
	var s, e *big.Int
	if neg {
		s = adjust(start, new(big.Int).Sub(n, one))
		e = adjust(stop, minusOne)
	} else {
		s = adjust(start, zero)
		e = adjust(stop, n)
	}
	out := []int{}
	i := new(big.Int).Set(s)
	for {
		if neg {
			if i.Cmp(e) <= 0 {
				break
			}
		} else if i.Cmp(e) >= 0 {
			break
		}
		out = append(out, int(i.Int64()))
		i.Add(i, st)
	}
	return out, nil
}

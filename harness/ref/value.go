// Package ref is an independent reference model of JMESPath written from the
// specification. It shares no code with the library under test and imports the
// standard library only.
package ref

import (
	"bytes"
	"encoding/json"
	"fmt"
	"math"
	"sort"
	"strconv"
	"strings"
)

// Plain JSON values use Go's decoded representation:
// nil, bool, float64, string, []interface{}, map[string]interface{}.
// The reference evaluator additionally uses three wrappers.

// Bag is an array whose element order is unspecified (it originates from
// iterating the members of an object). Len >= 2 always.
type Bag struct{ Items []interface{} }

// TextOf is "some string that is JSON text decoding to V" (to_string of a non-string).
type TextOf struct{ V interface{} }

// ExpRef is an expression reference (&expr).
type ExpRef struct{ N *Node }

// DeepCopy copies a plain JSON value.
func DeepCopy(v interface{}) interface{} {
	switch t := v.(type) {
	case []interface{}:
		out := make([]interface{}, len(t))
		for i, e := range t {
			out[i] = DeepCopy(e)
		}
		return out
	case map[string]interface{}:
		out := make(map[string]interface{}, len(t))
		for k, e := range t {
			out[k] = DeepCopy(e)
		}
		return out
	}
	return v
}

// SortedKeys returns the keys of m in sorted order.
func SortedKeys(m map[string]interface{}) []string {
	ks := make([]string, 0, len(m))
	for k := range m {
		ks = append(ks, k)
	}
	sort.Strings(ks)
	return ks
}

// Equal is structural JSON equality on plain values (no wrappers inside).
func Equal(a, b interface{}) bool {
	switch x := a.(type) {
	case nil:
		return b == nil
	case bool:
		y, ok := b.(bool)
		return ok && x == y
	case float64:
		y, ok := b.(float64)
		return ok && x == y
	case string:
		y, ok := b.(string)
		return ok && x == y
	case []interface{}:
		y, ok := b.([]interface{})
		if !ok || len(x) != len(y) {
			return false
		}
		for i := range x {
			if !Equal(x[i], y[i]) {
				return false
			}
		}
		return true
	case map[string]interface{}:
		y, ok := b.(map[string]interface{})
		if !ok || len(x) != len(y) {
			return false
		}
		for k, v := range x {
			w, present := y[k]
			if !present || !Equal(v, w) {
				return false
			}
		}
		return true
	}
	return false
}

// HasSpecial reports whether v contains a Bag, TextOf or ExpRef anywhere.
func HasSpecial(v interface{}) bool {
	switch t := v.(type) {
	case Bag, TextOf, ExpRef:
		return true
	case []interface{}:
		for _, e := range t {
			if HasSpecial(e) {
				return true
			}
		}
	case map[string]interface{}:
		for _, e := range t {
			if HasSpecial(e) {
				return true
			}
		}
	}
	return false
}

// HasExpRef reports whether v contains an expression reference anywhere.
func HasExpRef(v interface{}) bool {
	switch t := v.(type) {
	case ExpRef:
		return true
	case Bag:
		for _, e := range t.Items {
			if HasExpRef(e) {
				return true
			}
		}
	case TextOf:
		return HasExpRef(t.V)
	case []interface{}:
		for _, e := range t {
			if HasExpRef(e) {
				return true
			}
		}
	case map[string]interface{}:
		for _, e := range t {
			if HasExpRef(e) {
				return true
			}
		}
	}
	return false
}

// Matches decides whether the concrete value got (as returned by an
// implementation: plain JSON only) is one of the values denoted by the
// reference value want (which may contain Bags and TextOfs).
func Matches(got, want interface{}) bool {
	switch w := want.(type) {
	case Bag:
		g, ok := got.([]interface{})
		if !ok || g == nil || len(g) != len(w.Items) {
			return false // a nil slice is not an array: it serialises as null
		}
		return matchBag(g, w.Items)
	case TextOf:
		s, ok := got.(string)
		if !ok {
			return false
		}
		dec, err := ParseJSON(s)
		if err != nil {
			return false
		}
		return Matches(dec, w.V)
	case ExpRef:
		return false
	case []interface{}:
		g, ok := got.([]interface{})
		if !ok || g == nil || len(g) != len(w) {
			return false
		}
		for i := range w {
			if !Matches(g[i], w[i]) {
				return false
			}
		}
		return true
	case map[string]interface{}:
		g, ok := got.(map[string]interface{})
		if !ok || g == nil || len(g) != len(w) {
			return false
		}
		for k, v := range w {
			gv, present := g[k]
			if !present || !Matches(gv, v) {
				return false
			}
		}
		return true
	case nil:
		return got == nil
	case bool:
		y, ok := got.(bool)
		return ok && y == w
	case float64:
		y, ok := got.(float64)
		return ok && y == w
	case string:
		y, ok := got.(string)
		return ok && y == w
	}
	return false
}

// matchBag finds a perfect matching between got elements and wanted items.
func matchBag(got []interface{}, want []interface{}) bool {
	n := len(got)
	used := make([]bool, n)
	var rec func(i int) bool
	rec = func(i int) bool {
		if i == n {
			return true
		}
		for j := 0; j < n; j++ {
			if !used[j] && Matches(got[j], want[i]) {
				used[j] = true
				if rec(i + 1) {
					return true
				}
				used[j] = false
			}
		}
		return false
	}
	return rec(0)
}

// PossiblyEqual reports whether some ordering of the bags inside a and b makes
// them structurally equal. Both may contain Bags; TextOf is handled by the caller.
func PossiblyEqual(a, b interface{}) bool {
	ab, aIsBag := a.(Bag)
	bb, bIsBag := b.(Bag)
	if aIsBag || bIsBag {
		var ai, bi []interface{}
		if aIsBag {
			ai = ab.Items
		} else if arr, ok := a.([]interface{}); ok {
			ai = arr
		} else {
			return false
		}
		if bIsBag {
			bi = bb.Items
		} else if arr, ok := b.([]interface{}); ok {
			bi = arr
		} else {
			return false
		}
		if len(ai) != len(bi) {
			return false
		}
		// Sound over-approximation: a perfect matching under PossiblyEqual.
		n := len(ai)
		used := make([]bool, n)
		var rec func(i int) bool
		rec = func(i int) bool {
			if i == n {
				return true
			}
			for j := 0; j < n; j++ {
				if !used[j] && PossiblyEqual(ai[i], bi[j]) {
					used[j] = true
					if rec(i + 1) {
						return true
					}
					used[j] = false
				}
			}
			return false
		}
		return rec(0)
	}
	switch x := a.(type) {
	case []interface{}:
		y, ok := b.([]interface{})
		if !ok || len(x) != len(y) {
			return false
		}
		for i := range x {
			if !PossiblyEqual(x[i], y[i]) {
				return false
			}
		}
		return true
	case map[string]interface{}:
		y, ok := b.(map[string]interface{})
		if !ok || len(x) != len(y) {
			return false
		}
		for k, v := range x {
			w, present := y[k]
			if !present || !PossiblyEqual(v, w) {
				return false
			}
		}
		return true
	case TextOf, ExpRef:
		return true // unknown: treated as possibly equal (caller marks ambiguity)
	}
	switch b.(type) {
	case TextOf, ExpRef:
		return true
	}
	return Equal(a, b)
}

// Canon renders a value (with wrappers) as canonical text with sorted keys.
// Bags are rendered with sorted items so that the text is order independent.
func Canon(v interface{}) string {
	var sb strings.Builder
	canon(&sb, v)
	return sb.String()
}

func canon(sb *strings.Builder, v interface{}) {
	switch t := v.(type) {
	case nil:
		sb.WriteString("null")
	case bool:
		if t {
			sb.WriteString("true")
		} else {
			sb.WriteString("false")
		}
	case float64:
		sb.WriteString(FormatNumber(t))
	case string:
		sb.WriteString(QuoteJSON(t))
	case []interface{}:
		sb.WriteByte('[')
		for i, e := range t {
			if i > 0 {
				sb.WriteByte(',')
			}
			canon(sb, e)
		}
		sb.WriteByte(']')
	case map[string]interface{}:
		sb.WriteByte('{')
		for i, k := range SortedKeys(t) {
			if i > 0 {
				sb.WriteByte(',')
			}
			sb.WriteString(QuoteJSON(k))
			sb.WriteByte(':')
			canon(sb, t[k])
		}
		sb.WriteByte('}')
	case Bag:
		parts := make([]string, len(t.Items))
		for i, e := range t.Items {
			parts[i] = Canon(e)
		}
		sort.Strings(parts)
		sb.WriteString("bag[")
		sb.WriteString(strings.Join(parts, ","))
		sb.WriteByte(']')
	case TextOf:
		sb.WriteString("textof(")
		canon(sb, t.V)
		sb.WriteByte(')')
	case ExpRef:
		sb.WriteString("&expref")
	default:
		fmt.Fprintf(sb, "<%T>", v)
	}
}

// FormatNumber renders a float64 as JSON number text that decodes to the same float64.
func FormatNumber(f float64) string {
	if math.IsNaN(f) {
		return "NaN"
	}
	if math.IsInf(f, 1) {
		return "Infinity"
	}
	if math.IsInf(f, -1) {
		return "-Infinity"
	}
	if f == 0 && math.Signbit(f) {
		return "-0"
	}
	if f == math.Trunc(f) && math.Abs(f) < 1e15 {
		return strconv.FormatFloat(f, 'f', -1, 64)
	}
	s := strconv.FormatFloat(f, 'g', -1, 64)
	// strconv writes exponents as e+06; JSON accepts that form.
	return s
}

// QuoteJSON renders s as a JSON string (ASCII output, no HTML escaping).
func QuoteJSON(s string) string {
	var buf bytes.Buffer
	enc := json.NewEncoder(&buf)
	enc.SetEscapeHTML(false)
	_ = enc.Encode(s)
	out := buf.Bytes()
	return string(out[:len(out)-1]) // strip newline
}

// MarshalJSON renders a plain JSON value as compact JSON text with sorted keys.
func MarshalJSON(v interface{}) string {
	return Canon(v)
}

// ParseJSON decodes exactly one JSON value (standard library as referee).
func ParseJSON(s string) (interface{}, error) {
	var v interface{}
	if err := json.Unmarshal([]byte(s), &v); err != nil {
		return nil, err
	}
	return v, nil
}

// TypeName gives the JMESPath type name of a value.
func TypeName(v interface{}) string {
	switch v.(type) {
	case nil:
		return "null"
	case bool:
		return "boolean"
	case float64:
		return "number"
	case string, TextOf:
		return "string"
	case []interface{}, Bag:
		return "array"
	case map[string]interface{}:
		return "object"
	case ExpRef:
		return "expref"
	}
	return "unknown"
}

func jsonMarshal(v interface{}) ([]byte, error) { return json.Marshal(v) }

package harness

import (
	"encoding/json"
	"fmt"
	"os"
	"path/filepath"
	"sort"
	"testing"
)

type plainT struct {
	*testing.T
}

// TestReplay re-executes the predicate of one saved case file, bypassing rapid.
func TestReplay(t *testing.T) {
	path := os.Getenv("VERIF_REPLAY_FILE")
	if path == "" {
		t.Skip("no VERIF_REPLAY_FILE")
	}
	replayFile(t, path)
}

func replayFile(t *testing.T, path string) {
	data, err := os.ReadFile(path)
	if err != nil {
		t.Fatalf("HARNESS-ERROR: %v", err)
	}
	var c Case
	if err := json.Unmarshal(data, &c); err != nil {
		t.Fatalf("HARNESS-ERROR: bad case file %s: %v", path, err)
	}
	c.Note, c.Expected, c.Got = "", "", ""
	r := run(t, c)
	fmt.Printf("REPLAY-OK file=%s discard=%q known=%q nontrivial=%v\n", path, r.Discard, r.Known, r.Nontrivial)
}

// TestCorpus replays every saved regression case of the property in VERIF_PROP.
func TestCorpus(t *testing.T) {
	prop := os.Getenv("VERIF_PROP")
	dir := os.Getenv("VERIF_CORPUS_DIR")
	if prop == "" || dir == "" {
		t.Skip("no VERIF_PROP/VERIF_CORPUS_DIR")
	}
	files, _ := filepath.Glob(filepath.Join(dir, prop, "*.json"))
	sort.Strings(files)
	for _, f := range files {
		replayFile(t, f)
	}
	statsFor(prop).Class("corpus.replayed", int64(len(files)))
}

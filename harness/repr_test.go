package harness

// Representation-sensitive documents under the reuse and concurrency properties: every
// template expression on documents whose numbers print in exponent form, need 17 digits, are
// the two zeros in both orders, and whose strings start with or contain characters of every
// UTF-8 length.

import (
	"fmt"
	"strings"
	"testing"
)

var reprDocs = []string{
	`{"people":[{"name":"zz","age":9,"tags":["t2","t1"]},{"name":"�é","age":1e21,"tags":["𝄞","á"]},{"name":"ǆ","age":-0,"tags":[]},{"name":"a","age":0,"tags":["\u007f"]}],"nums":[3,-0,0,1e21,1e-7,0.23333333333333334,2],"strs":["c","�abc","𝄞","9223372036854775808","a"],"o1":{"k":[2,1],"j":[1e-7,-0]},"o2":{"k":[0],"z":"𝄞"},"nested":[[2,1],[1e21],[],"x"],"lists":[[2,1],[3],[],[5,4,6]]}`,
	`{"people":[{"name":"a","age":0,"tags":["\u007f"]},{"name":"ǆ","age":-0,"tags":[]},{"name":"zz","age":5e-324,"tags":["t2","t1"]}],"nums":[0,-0,6.02214076e23,1.2345678901234568e-10,9007199254740993,1],"strs":["9999999999999999999","0.23333333333333334","é𝄞","\u0080"],"o1":{"k":[1e21],"j":[0]},"o2":{"k":[-0]},"nested":[[0,-0],[-0,0]],"lists":[[0],[-0],[],[1e21,1e-7]]}`,
}

// TestC13Representation: reuse (fresh, repeated after other documents, primed by documents
// of the same shape with other values) must agree with the one-shot Search exactly.
func TestC13Representation(t *testing.T) {
	n := 0
	for _, d := range reprDocs {
		for _, e := range c06Templates {
			run(t, Case{Property: "C13", Kind: "diff", Expr: e, Doc: d, Extra: map[string]interface{}{"cell": "repr"}})
			n++
		}
	}
	// call shapes of every size 1..40 (argument stacks, frames): nested, wide, wide with a
	// nested call late, calls in every member of a list
	for k := 1; k <= 40; k++ {
		for _, e := range []string{
			strings.Repeat("abs(", k) + "`-1`" + strings.Repeat(")", k),
			"not_null(" + strings.Repeat("missing, ", k) + "abs(`-1`))",
			"not_null(" + strings.Repeat("abs(`-1`) && missing, ", k) + "`2`)",
			"[" + strings.Repeat("abs(`-1`), ", k) + "abs(`-2`)]",
			"merge(" + strings.Repeat("{a: abs(`-1`)}, ", k) + "{b: to_string(`2`)})",
			strings.Repeat("not_null(missing, ", k) + "abs(`-3`)" + strings.Repeat(")", k),
			"join('', [" + strings.Repeat("to_string(length(nums)), ", k) + "'x'])",
		} {
			run(t, Case{Property: "C13", Kind: "diff", Expr: e, Doc: reprDocs[0], Extra: map[string]interface{}{"cell": "calls"}})
			n++
		}
	}
	st := statsFor("C13")
	st.mu.Lock()
	st.Exhaustive["C13.representation"] = fmt.Sprintf("%d template expressions x %d documents with exponent-form numbers, both zeros in both orders, 17-digit fractions, astral and replacement characters: %d cases through the history leg", len(c06Templates), len(reprDocs), n)
	st.mu.Unlock()
}

// TestC12Representation: the same under concurrency (same document, and per-goroutine
// documents of the same shape with other values).
func TestC12Representation(t *testing.T) {
	shard, nshards := envInt("VERIF_SHARD", 0), envInt("VERIF_NSHARDS", 1)
	n := 0
	for di, d := range reprDocs {
		for ei, e := range c06Templates {
			if (di*len(c06Templates)+ei)%nshards != shard {
				continue
			}
			for _, mode := range []string{"same-doc", "own-docs"} {
				run(t, Case{Property: "C12", Kind: "concurrent", Expr: e, Doc: d, Extra: map[string]interface{}{"mode": mode}})
				n++
			}
		}
	}
	st := statsFor("C12")
	st.mu.Lock()
	st.Exhaustive["C12.representation"] = fmt.Sprintf("%d template expressions x %d representation-sensitive documents x {same-doc, own-docs} (shard %d/%d: %d cases)", len(c06Templates), len(reprDocs), shard, nshards, n)
	st.mu.Unlock()
}

package harness

// Representation-sensitive documents under the reuse and concurrency properties: every
// template expression on documents whose numbers print in exponent form, need 17 digits, are
// the two zeros in both orders, and whose strings start with or contain characters of every
// UTF-8 length.

import (
	"fmt"
	"strings"
	"testing"

	"verifharness/ref"
)

var reprDocs = []string{
	`{"people":[{"name":"zz","age":9,"tags":["t2","t1"]},{"name":"�é","age":1e21,"tags":["𝄞","á"]},{"name":"ǆ","age":-0,"tags":[]},{"name":"a","age":0,"tags":["\u007f"]}],"nums":[3,-0,0,1e21,1e-7,0.23333333333333334,2],"strs":["c","�abc","𝄞","9223372036854775808","a"],"o1":{"k":[2,1],"j":[1e-7,-0],"n":{"x":1,"y":2,"d":{"p":1}}},"o2":{"k":[0],"z":"𝄞","n":{"x":3,"d":{"q":2}}},"nested":[[2,1],[1e21],[],"x"],"lists":[[2,1],[3],[],[5,4,6]],"empty":{},"emptyl":[],"sorted":[1,2,3,5],"sstrs":["a","b","c"],"one":[7],"ranked":[{"r":1,"v":"x"},{"r":2,"v":"y"},{"r":2,"v":"z"}]}`,
	`{"people":[{"name":"a","age":0,"tags":["\u007f"]},{"name":"ǆ","age":-0,"tags":[]},{"name":"zz","age":5e-324,"tags":["t2","t1"]}],"nums":[0,-0,6.02214076e23,1.2345678901234568e-10,9007199254740993,1],"strs":["9999999999999999999","0.23333333333333334","é𝄞","\u0080"],"o1":{"k":[1e21],"j":[0],"n":{"x":-0,"y":1e21,"d":{}}},"o2":{"k":[-0],"n":{"x":0,"d":{"q":[]}}},"nested":[[0,-0],[-0,0]],"lists":[[0],[-0],[],[1e21,1e-7]],"empty":{},"emptyl":[],"sorted":[-0,0,1e-7,1e21],"sstrs":["","a","𝄞"],"one":[-0],"ranked":[{"r":0,"v":"x"},{"r":-0,"v":"y"},{"r":1e21,"v":"z"},{"r":1e21,"v":"w"}]}`,
}

// TestC13Representation: reuse (fresh, repeated after other documents, primed by documents
// of the same shape with other values) must agree with the one-shot Search exactly.
func TestC13Representation(t *testing.T) {
	n := 0
	for _, d := range reprDocs {
		for _, e := range c06Templates {
			run(t, Case{Property: "C13", Kind: "diff", Expr: e, Doc: d, Extra: map[string]interface{}{"cell": "repr"}})
			n++
		}
	}
	// call shapes of every size 1..40 (argument stacks, frames): nested, wide, wide with a
	// nested call late, calls in every member of a list
	for k := 1; k <= 40; k++ {
		for _, e := range []string{
			strings.Repeat("abs(", k) + "`-1`" + strings.Repeat(")", k),
			"not_null(" + strings.Repeat("missing, ", k) + "abs(`-1`))",
			"not_null(" + strings.Repeat("abs(`-1`) && missing, ", k) + "`2`)",
			"[" + strings.Repeat("abs(`-1`), ", k) + "abs(`-2`)]",
			"merge(" + strings.Repeat("{a: abs(`-1`)}, ", k) + "{b: to_string(`2`)})",
			strings.Repeat("not_null(missing, ", k) + "abs(`-3`)" + strings.Repeat(")", k),
			"join('', [" + strings.Repeat("to_string(length(nums)), ", k) + "'x'])",
		} {
			run(t, Case{Property: "C13", Kind: "diff", Expr: e, Doc: reprDocs[0], Extra: map[string]interface{}{"cell": "calls"}})
			n++
		}
	}
	st := statsFor("C13")
	st.mu.Lock()
	st.Exhaustive["C13.representation"] = fmt.Sprintf("%d template expressions x %d documents with exponent-form numbers, both zeros in both orders, 17-digit fractions, astral and replacement characters: %d cases through the history leg", len(c06Templates), len(reprDocs), n)
	st.mu.Unlock()
}

// TestC12Representation: the same under concurrency (same document, and per-goroutine
// documents of the same shape with other values).
func TestC12Representation(t *testing.T) {
	shard, nshards := envInt("VERIF_SHARD", 0), envInt("VERIF_NSHARDS", 1)
	n := 0
	for di, d := range reprDocs {
		for ei, e := range c06Templates {
			if (di*len(c06Templates)+ei)%nshards != shard {
				continue
			}
			for _, mode := range []string{"same-doc", "own-docs"} {
				run(t, Case{Property: "C12", Kind: "concurrent", Expr: e, Doc: d, Extra: map[string]interface{}{"mode": mode}})
				n++
			}
		}
	}
	st := statsFor("C12")
	st.mu.Lock()
	st.Exhaustive["C12.representation"] = fmt.Sprintf("%d template expressions x %d representation-sensitive documents x {same-doc, own-docs} (shard %d/%d: %d cases)", len(c06Templates), len(reprDocs), shard, nshards, n)
	st.mu.Unlock()
}

// TestC13Endurance: whatever a search leaves behind in the compiled expression must not add
// up. Every template is searched once on a good document, then 400 times on documents that
// make it fail in different places (and 100 times on good ones), then on the first document
// again: same answer as the first time and as the one-shot Search.
func TestC13Endurance(t *testing.T) {
	good := mustJSON(reprDocs[0])
	bad := []interface{}{
		mustJSON(`{"people":[{"name":"b","age":2,"tags":["x"]},{"name":1,"age":"old","tags":"t"},{"name":"a","age":null}],"nums":[3,"x",1,null],"strs":["b",7,"a"],"o1":3,"o2":"s","nested":[[2,1],"x",[0]],"lists":[[2,1],3]}`),
		mustJSON(`{"people":"none","nums":{"a":1},"strs":null,"o1":[],"o2":[],"nested":7,"lists":"l"}`),
		nil,
		mustJSON(`[1,"a",null,[2],{"b":3}]`),
	}
	// big arrays whose last key has another type: by-expression functions fail after many comparisons
	big := make([]interface{}, 80)
	for i := range big {
		big[i] = map[string]interface{}{"name": fmt.Sprintf("n%02d", (i*37)%80), "age": float64((i * 37) % 80), "tags": []interface{}{"t"}}
	}
	big[79].(map[string]interface{})["age"] = "old"
	big[40].(map[string]interface{})["name"] = 5.0
	bad = append(bad, map[string]interface{}{"people": big, "nums": []interface{}{1.0, "x"}, "strs": []interface{}{"a", 1.0}})
	n := 0
	for _, e := range c06Templates {
		c, err, pan := libCompile(e)
		if err != nil || pan != nil {
			continue
		}
		oneshot := libSearch(e, ref.DeepCopy(good))
		var first libOut
		first.Panic = safely(func() { first.Val, first.Err = c.Search(ref.DeepCopy(good)) })
		for i := 0; i < 500; i++ {
			d := bad[i%len(bad)]
			if i%5 == 4 {
				d = good
			}
			if p := safely(func() { _, _ = c.Search(ref.DeepCopy(d)) }); p != nil {
				first.Panic = p
				break
			}
		}
		var last libOut
		last.Panic = safely(func() { last.Val, last.Err = c.Search(ref.DeepCopy(good)) })
		n++
		cs := Case{Property: "C13", Kind: "endurance", Expr: e, Doc: reprDocs[0]}
		// where the order of object members is involved two evaluations may differ legitimately
		unordered := true
		if nn, st, pe := ref.ParseText(e); pe == nil && st == ref.LexOK {
			ev := &ref.Ev{}
			w, _ := ev.Eval(nn, ref.DeepCopy(good))
			unordered = ev.Ambiguous || hasBag(w)
		}
		viol := ""
		switch {
		case first.Panic != nil || last.Panic != nil:
			viol = "Search panicked"
		case !unordered && (first.Err != nil) != (last.Err != nil):
			viol = "after 500 further searches (most of them failing) the compiled expression fails where it succeeded before (or the reverse)"
		case !unordered && showOut(first) != showOut(last):
			viol = "after 500 further searches (most of them failing) the compiled expression answers the first document differently"
		case !unordered && oneshot.Panic == nil && showOut(oneshot) != showOut(last):
			viol = "after 500 further searches the compiled expression differs from the one-shot Search"
		}
		statsFor("C13").RecordKey("endurance:"+e, true, func() interface{} { return cs }, "endurance")
		if viol != "" {
			cs.Note, cs.Expected, cs.Got = viol, showOut(first), showOut(last)
			p := writeReplay(cs)
			t.Fatalf("VIOLATION-CASE file=%s property=C13 kind=endurance expr=%q: %s (first %s, last %s)", p, e, viol, showOut(first), showOut(last))
		}
	}
	st := statsFor("C13")
	st.mu.Lock()
	st.Exhaustive["C13.endurance"] = fmt.Sprintf("%d template expressions: 1 search, 500 further searches (400 failing at different depths incl. by-expression comparisons on 80 elements), then the first document again", n)
	st.mu.Unlock()
}

func init() {
	predicates["endurance"] = func(c Case) (r Result) {
		r.Discard = "replay-by-running-TestC13Endurance"
		return
	}
}

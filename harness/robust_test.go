package harness

// C17 (Compile failure contract) and C05 (never panic, always return, bounded
// resources), including the native fuzz targets.

import (
	"fmt"
	"os"
	"path/filepath"
	"regexp"
	"runtime"
	"strconv"
	"strings"
	"testing"
	"time"

	jp "github.com/jmespath/go-jmespath"
	"pgregory.net/rapid"

	"verifharness/ref"
)

func init() {
	predicates["contract"] = predContract
	predicates["robust"] = predRobust
}

// ---------------------------------------------------------------------------
// C17

var templRE1 = regexp.MustCompile(`'[^']*'|"[^"]*"|\d+`)

func messageTemplate(msg string) string {
	m := templRE1.ReplaceAllString(msg, "#")
	if len(m) > 70 {
		m = m[:70]
	}
	return m
}

func predContract(c Case) (r Result) {
	expr := c.expr()
	var comp *jp.JMESPath
	var err error
	if pan := safely(func() { comp, err = jp.Compile(expr) }); pan != nil {
		r.Violation = "Compile panicked"
		r.Got = fmt.Sprint(pan)
		return
	}
	if (comp == nil) == (err == nil) {
		r.Violation = "Compile must return exactly one of (expression, error)"
		r.Got = fmt.Sprintf("expression nil=%v, error=%v", comp == nil, err)
		return
	}
	// MustCompile panics exactly when Compile fails
	var must *jp.JMESPath
	pan := safely(func() { must = jp.MustCompile(expr) })
	if err != nil {
		r.Nontrivial = true
		if pan == nil {
			r.Violation = "MustCompile did not panic although Compile failed"
			return
		}
		ps, ok := pan.(string)
		if !ok || !strings.Contains(ps, strconv.Quote(expr)) {
			r.Violation = "MustCompile's panic value does not name the expression"
			r.Expected, r.Got = "a string containing "+strconv.Quote(expr), fmt.Sprintf("%#v", pan)
			return
		}
		r.class("site:" + messageTemplate(err.Error()))
		var se jp.SyntaxError
		isSE := false
		switch e := err.(type) {
		case jp.SyntaxError:
			se, isSE = e, true
		case *jp.SyntaxError:
			if e != nil {
				se, isSE = *e, true
			}
		}
		if isSE {
			r.class("syntaxerror")
			if se.Expression != expr {
				r.Violation = "SyntaxError.Expression is not the original expression"
				r.Expected, r.Got = strconv.Quote(expr), strconv.Quote(se.Expression)
				return
			}
			if se.Offset < 0 || se.Offset > len(expr) {
				r.Violation = "SyntaxError.Offset is outside the expression"
				r.Expected, r.Got = fmt.Sprintf("0 <= offset <= %d", len(expr)), strconv.Itoa(se.Offset)
				return
			}
			switch {
			case se.Offset == 0:
				r.class("offset:0")
			case se.Offset == len(expr):
				r.class("offset:len")
			default:
				r.class("offset:interior")
			}
			var hl, msg string
			if p := safely(func() { hl = se.HighlightLocation(); msg = se.Error() }); p != nil {
				r.Violation = "HighlightLocation/Error panicked"
				r.Got = fmt.Sprint(p)
				return
			}
			if want := expr + "\n" + strings.Repeat(" ", se.Offset) + "^"; hl != want {
				r.Violation = "HighlightLocation is not the expression followed by a caret line pointing at Offset"
				r.Expected, r.Got = strconv.Quote(want), strconv.Quote(hl)
				return
			}
			if msg == "" {
				r.Violation = "SyntaxError.Error() is empty"
				return
			}
		} else {
			r.class("other-error")
			if err.Error() == "" {
				r.Violation = "error message is empty"
			}
		}
		return
	}
	r.class("compiled")
	// a compiled expression must be usable: a text that is not a sentence cannot be
	// (cross-check with the grammar; open known findings excluded)
	if toks, st, _ := ref.Lex(expr); st == ref.LexError {
		r.Violation = "Compile returned an expression for a text that is not a sequence of JMESPath tokens"
		return
	} else if st == ref.LexOK {
		if _, perr := ref.Parse(toks); perr != nil {
			if id := classifyAcceptedNonSentence(toks); id != "" {
				r.Known = id
				r.Violation = "Compile returned an expression for a non-sentence (known finding " + id + ")"
				return
			}
			r.Nontrivial = true
			r.Violation = "Compile returned an expression (and no error) for an ungrammatical text; such an expression is not usable"
			return
		}
	}
	if pan != nil || must == nil {
		r.Violation = "MustCompile panicked or returned nil although Compile succeeded"
		r.Got = fmt.Sprint(pan)
		return
	}
	// usable, and MustCompile's expression behaves like Compile's
	for _, d := range []interface{}{nil, mustJSON(enumDocText)} {
		var v1, v2 interface{}
		var e1, e2 error
		if p := safely(func() { v1, e1 = comp.Search(d); v2, e2 = must.Search(ref.DeepCopy(d)) }); p != nil {
			r.Violation = "a compiled expression panicked in Search"
			r.Got = fmt.Sprint(p)
			return
		}
		// behaviour is compared only where the specification determines it (expressions
		// that use the unspecified order of object members may legitimately differ
		// between two evaluations, even in whether they fail)
		n, st, perr := ref.ParseText(expr)
		if perr != nil || st != ref.LexOK {
			continue
		}
		ev := &ref.Ev{}
		want, werr := ev.Eval(n, ref.DeepCopy(d))
		if ev.Ambiguous {
			continue
		}
		if (e1 != nil) != (e2 != nil) {
			r.Violation = "MustCompile's expression behaves differently from Compile's"
			return
		}
		if (werr != nil) != (e1 != nil) {
			r.Violation = "compiled expression disagrees with the specification about failure"
			r.Expected, r.Got = fmt.Sprint(werr), fmt.Sprint(e1)
			return
		}
		if e1 == nil && (!ref.Matches(v1, want) || !ref.Matches(v2, want)) {
			r.Violation = "compiled expression returns a different value than the specification defines"
			r.Expected, r.Got = show(want), show(v1)+" / "+show(v2)
			return
		}
	}
	return
}

// truncations and single-site generators for every failure site
var c17Sites = []string{
	"", " ", "a.", ".a", "a..b", "a[", "a[0", "a[0:", "a[?", "a[?b", "a[?b]c", "a[*", "(a", "a)", "{a", "{a:", "{a:b", "{a:b,", "{a b}", "{1:a}",
	"a,b", "[a,", "[a,]", "[,a]", "f(", "f(a", "f(a,", "f(a,)", "f(a b)", "f(,a)", "\"a\"(b)", "a(b)(c)", "@(a)", "`1`(a)", "(a)(b)", "[a](b)",
	"'abc", "\"abc", "`abc", "`abc`", "\"\\q\"", "\"\\u12\"", "\"\\u\"", "foo.\"ab\\u1\"", "\"\\ud800\"", "`\"\\u12\"`", "`\"\\`", "'\\", "\"\\", "a = b", "a == ", "== a", "a ||", "|| a", "a |", "| a", "a &&", "!", "a !", "a ! b", "-", "a[-]",
	"a[9223372036854775808]", "a[1:9223372036854775808]", "a[:::]", "a[1 2]", "a[1:2 3]", "a[0:1:2:3]", "*.", "*.[", "a.*.", "a[*]b", "a[]b", "a b",
	"a.1", "a.@", "a.&b", "&", "a[&b]", "#", "a#", "a.#", "é", "a.é", "\u0080", "a\u0080", "\xff", "a\xff", "a\x00b", "[?]", "[?a", "{}", "[]]", "a]", "a}",
	"a:b", ":", "a,", "`", "'", "\"", "\\", "a\\", "a.b.", "a.b.[", "a.b.{", "a.{a:b}.", "f(&)", "f(&&)", "a | | b", "a || || b", "!!", "a[*].", "a[*].[",
}

func TestC17Sites(t *testing.T) {
	for _, s := range c17Sites {
		for _, ctx := range []string{"%s", " %s", "%s ", "b | %s", "[%s", "é%s"} {
			e := strings.Replace(ctx, "%s", s, 1)
			run(t, withExpr(Case{Property: "C17", Kind: "contract"}, e))
		}
	}
}

func genBytes(t *rapid.T) string {
	switch rapid.IntRange(0, 3).Draw(t, "bytesKind") {
	case 0:
		return string(rapid.SliceOfN(rapid.Byte(), 0, 40).Draw(t, "bytes"))
	case 1:
		// token soup with hostile lexemes
		n := rapid.IntRange(0, 12).Draw(t, "soupLen")
		var parts []string
		for i := 0; i < n; i++ {
			parts = append(parts, hostileLexemes[rapid.IntRange(0, len(hostileLexemes)-1).Draw(t, "soup")])
		}
		return strings.Join(parts, []string{"", " ", ""}[rapid.IntRange(0, 2).Draw(t, "soupSep")])
	case 2:
		return genHardString(t, "hard")
	default:
		// a sentence with a rune spliced in or truncated
		lex := genSentence(t, 4+rapid.IntRange(0, 10).Draw(t, "budget"))
		s := ref.RenderTight(lex)
		if len(s) > 0 {
			p := rapid.IntRange(0, len(s)).Draw(t, "cut")
			switch rapid.IntRange(0, 2).Draw(t, "cutKind") {
			case 0:
				s = s[:p]
			case 1:
				s = s[:p] + string(hardRunes[rapid.IntRange(0, len(hardRunes)-1).Draw(t, "splice")]) + s[p:]
			default:
				s = s[:p] + string([]byte{byte(rapid.IntRange(0x80, 0xff).Draw(t, "badByte"))}) + s[p:]
			}
		}
		return s
	}
}

var hostileLexemes = []string{"a", "b", "\"q\"", "0", "-1", "9223372036854775807", "-9223372036854775808", "9223372036854775808", "*", ".", "[", "]", "[]", "[?", "(", ")", "{", "}", ",", ":",
	"==", "!=", "<", "<=", ">", ">=", "||", "&&", "|", "!", "&", "@", "`1`", "`[1,2]`", "'r'", "`", "'", "\"", "\\", "-", "=", "#", "\u0080", "é", "\x00", "\xff", "\xc3", "abs", "sort_by", "merge", "contains", "f", "::", "[::", "[-", "`{`", "`\"`", "'\\''",
	// valid JSON texts that a float64 cannot hold, and other literals that decode with an error other than a syntax error
	"`1e999`", "`-1e999`", "`[1,1e999]`", "`{\"a\":1e999}`", "`1e-999`", "`123456789012345678901234567890123456789012345678901234567890123456789012345678901234567890123456789012345678901234567890123456789012345678901234567890123456789012345678901234567890123456789012345678901234567890123456789012345678901234567890123456789012345678901234567890123456789012345678901234567890123456789012345678901234567890`", "`true `", "` null`", "`false\n`", "`\"\\ud800\"`"}

var escapePieces = []string{`\u`, `\u1`, `\u12`, `\u123`, `\u1234`, `\ud800`, `\udc00\ud800`, `\x`, `\"`, `\\`, `\`, `\'`, "\\`", `\/`, `\n`, "a", "é", " ", "1", "{", "[", ":", ",", "\t", "\x00", "\x7f", "null", "tru", "\xff", "\xff\xff", "\x80\x80\x80", "\xc3", "\xe2\x82"}

// genDelimited: a quoted identifier, raw string or literal whose body is built from
// valid and broken escape pieces, placed at the start, middle or end of an expression.
func genDelimited(t *rapid.T) string {
	d := []string{`"`, "'", "`"}[rapid.IntRange(0, 2).Draw(t, "delim")]
	var sb strings.Builder
	for i, n := 0, rapid.IntRange(0, 5).Draw(t, "pieces"); i < n; i++ {
		sb.WriteString(escapePieces[rapid.IntRange(0, len(escapePieces)-1).Draw(t, "piece")])
	}
	body := sb.String()
	closeIt := rapid.IntRange(0, 5).Draw(t, "close") > 0
	tok := d + body
	if closeIt {
		tok += d
	}
	switch uni(t, 10, "place") {
	case 6, 7:
		// directly followed by every other kind of token (what the parser does with the pair)
		return tok + hostileLexemes[uni(t, len(hostileLexemes), "next")]
	case 8:
		return hostileLexemes[uni(t, len(hostileLexemes), "prev")] + tok
	case 9:
		return tok + hostileLexemes[uni(t, len(hostileLexemes), "next")] + hostileLexemes[uni(t, len(hostileLexemes), "next2")]
	case 0:
		return tok
	case 1:
		return "foo." + tok
	case 2:
		return tok + ".foo"
	case 3:
		return tok + " "
	case 4:
		return "[" + tok + ", " + tok + "]"
	default:
		return "a || " + tok + " | b"
	}
}

func TestC17Random(t *testing.T) {
	rapid.Check(t, func(t *rapid.T) {
		var e string
		if rapid.IntRange(0, 4).Draw(t, "delimited") == 0 {
			e = genDelimited(t)
			run(t, withExpr(Case{Property: "C17", Kind: "contract"}, e))
			return
		}
		switch rapid.IntRange(0, 3).Draw(t, "kind") {
		case 0:
			lex := genSentence(t, 4+rapid.IntRange(0, 16).Draw(t, "budget"))
			e = renderRandom(t, lex)
		case 1:
			lex := mutate(t, genSentence(t, 4+rapid.IntRange(0, 16).Draw(t, "budget")))
			e = renderRandom(t, lex)
		default:
			e = genBytes(t)
		}
		run(t, withExpr(Case{Property: "C17", Kind: "contract"}, e))
	})
}

// ---------------------------------------------------------------------------
// C05

const watchdog = 20 * time.Second

// predRobust: no panic, returns in time, bounded allocation; on grammatical
// inputs the result agrees with the reference model (semantic oracle inside
// the target). Doc is JSON text.
func predRobust(c Case) (r Result) {
	expr := c.expr()
	doc := mustJSON(c.Doc)
	large := len(expr)+len(c.Doc) > 4096
	var before runtime.MemStats
	if large {
		runtime.ReadMemStats(&before)
	}
	type outcome struct {
		compErr   error
		one, two  libOut
		panicked  interface{}
		hlPanic   interface{}
		mustPanic interface{}
	}
	done := make(chan outcome, 1)
	go func() {
		var o outcome
		_, o.compErr, o.panicked = libCompile(expr)
		if o.panicked == nil {
			if se, ok := o.compErr.(jp.SyntaxError); ok {
				o.hlPanic = safely(func() { _ = se.HighlightLocation(); _ = se.Error() })
			}
			mp := safely(func() { jp.MustCompile(expr) })
			if o.compErr == nil && mp != nil {
				o.mustPanic = mp
			}
			o.one = libSearch(expr, ref.DeepCopy(doc))
			o.two = libCompileSearch(expr, ref.DeepCopy(doc))
		}
		done <- o
	}()
	var o outcome
	select {
	case o = <-done:
	case <-time.After(watchdog):
		r.Nontrivial = true
		r.Violation = fmt.Sprintf("Compile/Search did not return within %v", watchdog)
		return
	}
	if o.panicked != nil {
		r.Nontrivial = true
		r.Violation = "Compile panicked"
		r.Got = fmt.Sprint(o.panicked)
		return
	}
	if o.hlPanic != nil || o.mustPanic != nil {
		r.Violation = "SyntaxError rendering or MustCompile panicked unexpectedly"
		r.Got = fmt.Sprint(o.hlPanic, o.mustPanic)
		return
	}
	for _, x := range []libOut{o.one, o.two} {
		if x.Panic != nil {
			r.Nontrivial = true
			r.Violation = "Search panicked"
			r.Got = showOut(x)
			return
		}
	}
	if large {
		var after runtime.MemStats
		runtime.ReadMemStats(&after)
		resLen := 0
		if o.one.Err == nil {
			resLen = len(show(o.one.Val))
		}
		// every step of an expression may materialise an intermediate result of the size of
		// the document, so the envelope has a linear part and an |expression| x |data| part
		budget := uint64(2048*(len(expr)+len(c.Doc)+resLen)) + 16<<20 + 32*uint64(len(expr))*uint64(len(c.Doc)+resLen)
		if used := after.TotalAlloc - before.TotalAlloc; used > budget {
			r.Violation = fmt.Sprintf("allocation is not bounded by the input size: %d bytes allocated for %d bytes of input", used, len(expr)+len(c.Doc))
			return
		}
		r.class("large")
	}
	// semantic oracle
	toks, st, _ := ref.Lex(expr)
	accepted := o.compErr == nil
	switch st {
	case ref.LexOutOfDomain:
		r.class("out-of-domain")
		r.Nontrivial = strings.ContainsAny(expr, "\x80\xff") || len(expr) > 0
		return
	case ref.LexError:
		r.class("lex-error")
		r.Nontrivial = true
		if accepted {
			r.Violation = "Compile accepts a text that is not a sequence of JMESPath tokens"
		}
		return
	}
	n, perr := ref.Parse(toks)
	r.Nontrivial = true
	if perr != nil {
		r.class("parse-error")
		if accepted {
			if id := classifyAcceptedNonSentence(toks); id != "" {
				r.Known = id
				r.Violation = "Compile accepts a non-sentence (known finding " + id + ")"
				return
			}
			r.Violation = "Compile accepts a text that is not a sentence of the grammar"
		}
		return
	}
	if !accepted {
		r.Violation = "Compile rejects a sentence of the grammar"
		r.Got = o.compErr.Error()
		return
	}
	ev := &ref.Ev{}
	want, werr := ev.Eval(n, ref.DeepCopy(doc))
	if ev.Ambiguous {
		r.class("evaluated-ambiguous")
		return
	}
	for _, x := range []libOut{o.one, o.two} {
		if (werr != nil) != (x.Err != nil) {
			r.Violation = "error presence differs from the specification"
			r.Expected, r.Got = fmt.Sprint(werr), showOut(x)
			return
		}
		if werr == nil && !ref.Matches(x.Val, want) {
			r.Violation = "result differs from the specification"
			r.Expected, r.Got = show(want), show(x.Val)
			return
		}
	}
	if werr != nil {
		r.class("evaluated-error")
	} else {
		r.class("evaluated-ok")
	}
	return
}

// deep nesting generators
func genDeep(t *rapid.T) string {
	n := rapid.IntRange(1, 16000).Draw(t, "depth")
	switch rapid.IntRange(0, 11).Draw(t, "deepKind") {
	case 0:
		return strings.Repeat("(", n) + "a" + strings.Repeat(")", n)
	case 1:
		return strings.Repeat("!", n) + "a"
	case 2:
		return strings.Repeat("[", n) + "a" + strings.Repeat("]", n)
	case 3:
		return "a" + strings.Repeat(".a", n)
	case 4:
		return "a" + strings.Repeat("[*]", n)
	case 5:
		return "a" + strings.Repeat("[]", n)
	case 6:
		return "a" + strings.Repeat("[0]", n)
	case 7:
		return strings.Repeat("{a:", n/2+1) + "a" + strings.Repeat("}", n/2+1)
	case 8:
		return "a" + strings.Repeat(" || a", n/2)
	case 9:
		return strings.Repeat("abs(", n/2+1) + "a" + strings.Repeat(")", n/2+1)
	case 10:
		return strings.Repeat("(", n) // unbalanced
	default:
		return "a" + strings.Repeat("[?a]", n/2) + strings.Repeat(" | a", n/4)
	}
}

func genLargeDoc(t *rapid.T) interface{} {
	n := rapid.IntRange(100, 3000).Draw(t, "big")
	arr := make([]interface{}, n)
	for i := range arr {
		switch i % 4 {
		case 0:
			arr[i] = float64(i % 17)
		case 1:
			arr[i] = map[string]interface{}{"a": float64(n - i), "b": strconv.Itoa(i % 13)}
		case 2:
			arr[i] = []interface{}{float64(i), "x"}
		default:
			arr[i] = strconv.Itoa(i % 7)
		}
	}
	return map[string]interface{}{"a": arr, "b": map[string]interface{}{"a": arr[:n/2]}}
}

var largeDocExprs = []string{"a[*].a", "a[].a", "a[?a > `5`].b", "sort_by(a[?type(@)=='object'], &a)[*].b", "a[::2][1:]", "b.a[*][0]", "length(a)", "a[?type(@)=='number'] | sum(@)",
	"map(&type(@), a)", "max_by(a[?a], &a)", "reverse(a)[0]", "a[*][*]", "a[].b | sort(@) | join(',', @)", "to_string(a) | length(@)", "a[?contains(`[1,2,3]`, @)]", "[a, a][]", "a[? b == '5'].a | [0]",
	"sort_by(a, &a)", "max_by(a, &b)", "sort_by(a[?type(@)!='array'], &a)", "sort_by(a, &type(@))[0]", "min_by(a, &to_string(@))", "sort_by(a[?type(@)=='object'], &b)[*].a", "sort(a)", "sort_by(a, &abs(@))", "max_by(a[?a], &length(b))", "map(&abs(a), a)"}

func TestC05(t *testing.T) {
	rapid.Check(t, func(t *rapid.T) {
		var e string
		var doc interface{}
		kind := rapid.IntRange(0, 99).Draw(t, "kind")
		switch {
		case kind < 5:
			e = genDelimited(t)
			if uni(t, 3, "delimCtx") == 0 {
				e = "a " + e
			}
			doc = genDoc(t)
		case kind < 25:
			e = genBytes(t)
			doc = genDoc(t)
		case kind < 45:
			// grammar sentences / mutants with hostile leaves
			lex := genSentence(t, 4+rapid.IntRange(0, 16).Draw(t, "budget"))
			if rapid.Bool().Draw(t, "mut") {
				lex = mutate(t, lex)
			}
			e = renderRandom(t, lex)
			doc = genDoc(t)
		case kind < 80:
			doc = genDoc(t)
			f := fragAll
			f.mismatch = 30
			e = genExpr(t, doc, f)
		case kind < 81:
			// hostile strings (invalid UTF-8, NUL, lone surrogate bytes) flowing into every
			// string-handling function through raw string literals
			bad := []string{"\xff", "\x80", "a\xffb", "\xc3", "\xe2\x82", "\xf0\x9f", "\xed\xa0\x80", "\x00", "é\xff", "\xff\xfe\xfd", "", "\xc0\xaf"}
			rs := func() string { return "'" + bad[uni(t, len(bad), "bad")] + "'" }
			tmpl := []string{"reverse(%s)", "length(%s)", "starts_with(%s, %s)", "ends_with(%s, %s)", "contains(%s, %s)", "join(%s, [%s, %s])", "to_number(%s)", "to_string(%s)",
				"sort([%s, %s])", "max([%s, %s])", "min([%s])", "sort_by([%s, %s], &@)", "max_by([%s, %s], &reverse(@))", "map(&reverse(@), [%s])", "%s == %s", "[%s][?@ == %s]",
				"{k: %s}.k | reverse(@)", "not_null(%s) | length(@)", "type(%s)", "to_array(%s)[0] | reverse(@)", "merge({a: %s}, {a: %s}).a", "keys({a: %s})", "%s < %s", "reverse(join('', [%s, 'a']))"}[uni(t, 24, "badT")]
			for strings.Contains(tmpl, "%s") {
				tmpl = strings.Replace(tmpl, "%s", rs(), 1)
			}
			e = tmpl
			doc = genDoc(t)
			statsFor("C05").Class("hostile-string-arg", 1)
		case kind < 83:
			e = genDeep(t)
			doc = genDoc(t)
			statsFor("C05").Class("deep-nesting", 1)
		case kind < 84:
			// deep documents matched by deep expressions (the evaluator, not only the parser, recurses)
			n := rapid.IntRange(1, 2000).Draw(t, "docDepth")
			var d interface{} = float64(7)
			switch uni(t, 4, "deepDocKind") {
			case 0:
				for i := 0; i < n; i++ {
					d = map[string]interface{}{"a": d}
				}
				e = "a" + strings.Repeat(".a", n-1)
			case 1:
				for i := 0; i < n; i++ {
					d = []interface{}{d}
				}
				e = strings.Repeat("[0]", n)
			case 2:
				for i := 0; i < n; i++ {
					d = []interface{}{d, float64(i)}
				}
				e = "@" + strings.Repeat("[]", n/2+1) + " | length(@)"
			default:
				for i := 0; i < n; i++ {
					d = map[string]interface{}{"a": []interface{}{d}}
				}
				e = "a" + strings.Repeat("[*].a", n/2) + " | [0]"
			}
			doc = d
			statsFor("C05").Class("deep-document", 1)
		case kind < 86:
			doc = genLargeDoc(t)
			e = largeDocExprs[rapid.IntRange(0, len(largeDocExprs)-1).Draw(t, "lde")]
			statsFor("C05").Class("large-doc", 1)
		default:
			// extreme integers in every index/slice slot
			ext := []string{"9223372036854775807", "-9223372036854775808", "-9223372036854775807", "4611686018427387904", "2147483648", "-2147483649", "0", "1", "-1"}
			p := func() string { return ext[rapid.IntRange(0, len(ext)-1).Draw(t, "ext")] }
			tm := []string{"[%s]", "a[%s]", "[%s:%s:%s]", "a[%s:%s:%s]", "[*][%s:%s:%s]", "a[:%s:%s].b", "[::%s]", "[%s::%s]"}[rapid.IntRange(0, 7).Draw(t, "extT")]
			for strings.Contains(tm, "%s") {
				tm = strings.Replace(tm, "%s", p(), 1)
			}
			e = tm
			doc = genDoc(t)
			statsFor("C05").Class("extreme-integer", 1)
		}
		run(t, withExpr(Case{Property: "C05", Kind: "robust", Doc: ref.Canon(doc)}, e))
	})
}

// ---------------------------------------------------------------------------
// native fuzz targets (thorough tier)

var fuzzDocs = []string{"null", enumDocText, `[1,2,3]`, `{"a":[{"b":1,"c":"x"},{"b":2,"c":"y"},{"b":"z"}],"b":{"c":[3,1,2]},"c":"str"}`, `[[1,2],[3],[],[[4]]]`, `"text"`, `[{"a":3},{"a":1},{"a":2}]`}

func addSeeds(f *testing.F) {
	repo := os.Getenv("VERIF_REPO")
	if repo == "" {
		repo = "/repo"
	}
	add := func(s string) {
		for d := 0; d < len(fuzzDocs); d += 3 {
			f.Add(append([]byte{byte(d)}, s...))
		}
	}
	if os.Getenv("VERIF_FUZZ_EMPTY_CORPUS") == "1" {
		f.Add([]byte{0, 'a'})
		return
	}
	files, _ := filepath.Glob(filepath.Join(repo, "fuzz", "testdata", "*"))
	for _, p := range files {
		if b, err := os.ReadFile(p); err == nil && len(b) < 300 {
			add(string(b))
		}
	}
	for _, s := range hostileLexemes {
		add(s)
		add("a" + s)
		add("a[" + s + "]")
	}
	for _, s := range c17Sites {
		add(s)
	}
	for _, s := range append(append([]string{}, c06Templates...), largeDocExprs...) {
		add(s)
	}
	for _, s := range errSeeds {
		add(s.expr)
	}
	add("a[1::9223372036854775807]")
	add("merge(`{}`, 'a')")
	add("contains(`[[1]]`, `[1]`)")
	add("a\u0080")
}

func fuzzBody(prop string) func(t *testing.T, data []byte) {
	return func(t *testing.T, data []byte) {
		if len(data) == 0 || len(data) > 65536 {
			return
		}
		doc := fuzzDocs[int(data[0])%len(fuzzDocs)]
		e := string(data[1:])
		var c Case
		if prop == "C17" {
			c = withExpr(Case{Property: "C17", Kind: "contract"}, e)
		} else {
			c = withExpr(Case{Property: "C05", Kind: "robust", Doc: doc}, e)
		}
		pred := predicates[c.Kind]
		r := pred(c)
		if r.Violation != "" && r.Known == "" {
			c.Note, c.Expected, c.Got = r.Violation, r.Expected, r.Got
			p := writeReplay(c)
			t.Fatalf("VIOLATION-CASE file=%s expr=%q: %s", p, e, r.Violation)
		}
	}
}

func FuzzC05(f *testing.F) {
	addSeeds(f)
	f.Fuzz(fuzzBody("C05"))
}

func FuzzC17(f *testing.F) {
	addSeeds(f)
	f.Fuzz(fuzzBody("C17"))
}

package harness

// C14: identifiers, raw strings and JSON literals denote exactly what is written.

import (
	"fmt"
	"reflect"
	"regexp"
	"strings"
	"testing"
	"unicode/utf8"

	"pgregory.net/rapid"

	"verifharness/ref"
)

func init() {
	predicates["ws"] = predWhitespace
	predicates["quoted"] = predQuoted
	predicates["raw"] = predRaw
	predicates["literal"] = predLiteral
	predicates["unquoted"] = predUnquoted
	predicates["mixed"] = predMixed
}

var hardRunes = []rune{'"', '\'', '`', '\\', '/', 0, 1, 0x1f, 0x7f, 0x80, 0xff, 0x2028, 0x2029, 0xfffd, 0xfeff, 'a', 'b', ' ', '\t', '\n', '\r', 'é', 0x0301, 0x1d4b3, 0x10ffff, 0xe000, 'u', 'n', '0', '{', '[', ']', '}', '.', '*', '&', '|'}

func genHardString(t *rapid.T, label string) string {
	n := rapid.IntRange(0, 12).Draw(t, label+"Len")
	if uni(t, 10, label+"Long") == 0 {
		// a long, mostly plain string with a few hard characters, some near the end
		// (fixed-size scratch buffers, chunked copies)
		total := bigSize(t, label+"LongLen")
		var sb strings.Builder
		for sb.Len() < total {
			sb.WriteByte("abcdefghij"[sb.Len()%10])
		}
		s := sb.String()
		for k, m := 0, 1+uni(t, 3, label+"Marks"); k < m; k++ {
			pos := len(s) - uni(t, 4, label+"FromEnd")
			if uni(t, 2, label+"Anywhere") == 0 {
				pos = rapid.IntRange(0, len(s)).Draw(t, label+"Pos")
			}
			if pos < 0 {
				pos = 0
			}
			s = s[:pos] + string(hardRunes[uni(t, 6, label+"Mark")]) + s[pos:]
		}
		if utf8.ValidString(s) {
			return s
		}
	}
	var sb strings.Builder
	for i := 0; i < n; i++ {
		if rapid.IntRange(0, 4).Draw(t, label+"Any") == 0 {
			r := rapid.Rune().Draw(t, label+"Rune")
			if r >= 0xd800 && r <= 0xdfff {
				r = 'x'
			}
			sb.WriteRune(r)
		} else {
			sb.WriteRune(hardRunes[rapid.IntRange(0, len(hardRunes)-1).Draw(t, label+"Hard")])
		}
	}
	s := sb.String()
	if !utf8.ValidString(s) {
		return "x"
	}
	if uni(t, 8, label+"Lookalike") == 0 {
		// plain text that looks like an escape sequence (a backslash is a character like any other:
		// validators that scan for "\\u" without tracking escaped backslashes, un-escapers run twice)
		chunk := escapeLookalikes[uni(t, len(escapeLookalikes), label+"LookalikeV")]
		rs := []rune(s)
		p := uni(t, len(rs)+1, label+"LookalikePos")
		s = string(rs[:p]) + chunk + string(rs[p:])
	}
	return s
}

var escapeLookalikes = []string{`\ud800`, `\udfff`, `\ud83d\ude00`, `\uD800x`, `\u0000`, `\u00e9`, `\u12`, `\x41`, `\n`, `\"`, `\'`, "\\`", `&#39;`, `%27`, `\u{1F600}`, `\U0001F600`, `\\ud800`, `C:\users\udd00\x`, `\`, `\\`, `\ufffd`, `\udc00\ud800`}

// escapeJSONString spells s as the body of a JSON string choosing randomly
// among the legal spellings of each character. delim is the character of the
// surrounding JMESPath token that must not appear unescaped ('"' for quoted
// identifiers, '`' for literals).
func escapeJSONString(t *rapid.T, s string, delim rune) string {
	var sb strings.Builder
	for _, r := range s {
		choice := rapid.IntRange(0, 3).Draw(t, "esc")
		short := map[rune]string{'"': `\"`, '\\': `\\`, '/': `\/`, '\b': `\b`, '\f': `\f`, '\n': `\n`, '\r': `\r`, '\t': `\t`}
		mustEscape := r == '"' || r == '\\' || r < 0x20
		uni := func() string {
			if r > 0xffff {
				r2 := r - 0x10000
				return fmt.Sprintf(`\u%04x\u%04x`, 0xd800+(r2>>10), 0xdc00+(r2&0x3ff))
			}
			if choice == 2 {
				return fmt.Sprintf(`\u%04X`, r)
			}
			return fmt.Sprintf(`\u%04x`, r)
		}
		switch {
		case r == '`' && delim == '`':
			// inside a literal the backtick is written \` (or as a \u escape)
			if choice == 0 {
				sb.WriteString(uni())
			} else {
				sb.WriteString("\\`")
			}
		case mustEscape:
			if sh, ok := short[r]; ok && choice != 0 {
				sb.WriteString(sh)
			} else {
				sb.WriteString(uni())
			}
		case choice == 0:
			sb.WriteString(uni())
		case choice == 1:
			if sh, ok := short[r]; ok {
				sb.WriteString(sh)
			} else {
				sb.WriteRune(r)
			}
		default:
			sb.WriteRune(r)
		}
	}
	return sb.String()
}

// predQuoted: Expr is a quoted identifier spelling of Extra["s"].
func predQuoted(c Case) (r Result) {
	s := c.Extra["s"].(string)
	expr := c.expr()
	var chk string
	if err := jsonUnmarshalString(expr, &chk); err != nil || chk != s {
		r.Discard = "HARNESS:escaper-produced-wrong-spelling"
		r.Violation = fmt.Sprintf("escaper: %q does not spell %q", expr, s)
		return
	}
	other := s + "x"
	doc := map[string]interface{}{s: "M", other: "N"}
	r.Nontrivial = needsEscape(s)
	for _, o := range []libOut{libSearch(expr, doc), libCompileSearch(expr, doc)} {
		if o.Panic != nil || o.Err != nil {
			r.Violation = "a quoted identifier (JSON string escaping) was not accepted"
			r.Got = showOut(o)
			return
		}
		if o.Val != "M" {
			r.Violation = "a quoted identifier does not select exactly the key it spells"
			r.Expected, r.Got = "M (value of key "+fmt.Sprintf("%q", s)+")", show(o.Val)
			return
		}
	}
	// also as a sub-expression and as a multi-select hash key
	o := libSearch("@."+expr, doc)
	if o.Panic != nil || o.Err != nil || o.Val != "M" {
		r.Violation = "a quoted identifier after a dot does not select the key it spells"
		r.Got = showOut(o)
		return
	}
	o = libSearch("{"+expr+": `1`}", doc)
	if m, ok := o.Val.(map[string]interface{}); o.Panic != nil || o.Err != nil || !ok || len(m) != 1 || m[s] != 1.0 {
		r.Violation = "a quoted identifier used as multi-select hash key does not denote the written name"
		r.Got = showOut(o)
	}
	return
}

func needsEscape(s string) bool {
	for _, r := range s {
		if r == '"' || r == '\'' || r == '`' || r == '\\' || r < 0x20 || r > 0x7e {
			return true
		}
	}
	return false
}

func inRawDomain(s string) bool {
	if strings.HasSuffix(s, "\\") {
		return false
	}
	return !strings.Contains(s, "\\'")
}

func predRaw(c Case) (r Result) {
	s := c.Extra["s"].(string)
	if !inRawDomain(s) {
		r.Discard = "outside-raw-string-domain"
		return
	}
	expr := "'" + strings.Replace(s, "'", "\\'", -1) + "'"
	r.Nontrivial = needsEscape(s)
	for _, o := range []libOut{libSearch(expr, nil), libCompileSearch(expr, map[string]interface{}{"a": 1.0})} {
		if o.Panic != nil || o.Err != nil {
			r.Violation = "a raw string literal was not accepted"
			r.Got = showOut(o)
			return
		}
		if o.Val != s {
			r.Violation = "a raw string literal does not denote exactly the written string"
			r.Expected, r.Got = fmt.Sprintf("%q", s), show(o.Val)
			return
		}
	}
	// in context: after other tokens and before others (scanner state)
	o := libSearch("[ "+expr+" , "+expr+" ]|[1]", 1.0)
	if o.Panic != nil || o.Err != nil || o.Val != s {
		r.Violation = "a raw string literal in context does not denote exactly the written string"
		r.Expected, r.Got = fmt.Sprintf("%q", s), showOut(o)
	}
	return
}

// predLiteral: Expr is a backtick literal spelling of the JSON value in Doc.
func predLiteral(c Case) (r Result) {
	want := mustJSON(c.Doc)
	expr := c.expr()
	r.Nontrivial = true
	for _, o := range []libOut{libSearch(expr, nil), libCompileSearch(expr, []interface{}{1.0})} {
		if o.Panic != nil || o.Err != nil {
			r.Violation = "a JSON literal was not accepted"
			r.Got = showOut(o)
			return
		}
		if !reflect.DeepEqual(o.Val, want) {
			r.Violation = "a JSON literal does not denote exactly the written value"
			r.Expected, r.Got = ref.Canon(want), show(o.Val)
			return
		}
	}
	return
}

var identRE = regexp.MustCompile(`^[A-Za-z_][A-Za-z0-9_]*$`)

// predUnquoted: Search(t, {t: M}) == M iff t matches [A-Za-z_][A-Za-z0-9_]*.
func predUnquoted(c Case) (r Result) {
	t := c.expr()
	doc := map[string]interface{}{t: "M"}
	isIdent := identRE.MatchString(t)
	r.Nontrivial = true
	if isIdent {
		r.class("identifier")
	} else {
		r.class("not-identifier")
	}
	for _, o := range []libOut{libSearch(t, doc), libCompileSearch(t, doc)} {
		if o.Panic != nil {
			r.Violation = "panic"
			r.Got = showOut(o)
			return
		}
		selected := o.Err == nil && o.Val == "M"
		if isIdent && !selected {
			r.Violation = "a string matching [A-Za-z_][A-Za-z0-9_]* is not read as an unquoted identifier selecting that key"
			r.Expected, r.Got = "M", showOut(o)
			return
		}
		if !isIdent && selected {
			r.Violation = "a string not matching [A-Za-z_][A-Za-z0-9_]* was read as an unquoted identifier"
			r.Expected, r.Got = "compile error or another value", showOut(o)
			return
		}
	}
	return
}

func jsonUnmarshalString(quoted string, out *string) error {
	v, err := ref.ParseJSON(quoted)
	if err != nil {
		return err
	}
	s, ok := v.(string)
	if !ok {
		return fmt.Errorf("not a string")
	}
	*out = s
	return nil
}

func TestC14Quoted(t *testing.T) {
	rapid.Check(t, func(t *rapid.T) {
		s := genHardString(t, "s")
		expr := `"` + escapeJSONString(t, s, '"') + `"`
		run(t, Case{Property: "C14", Kind: "quoted", Expr: expr, Extra: map[string]interface{}{"s": s}})
	})
}

func TestC14Raw(t *testing.T) {
	rapid.Check(t, func(t *rapid.T) {
		s := genHardString(t, "s")
		run(t, Case{Property: "C14", Kind: "raw", Extra: map[string]interface{}{"s": s}})
	})
}

// spellJSON writes a JSON value with randomised string escaping and whitespace.
func spellJSON(t *rapid.T, v interface{}) string {
	ws := func() string { return []string{"", "", " ", "\n", "\t"}[rapid.IntRange(0, 4).Draw(t, "jws")] }
	switch x := v.(type) {
	case string:
		return `"` + escapeJSONString(t, x, '`') + `"`
	case []interface{}:
		parts := make([]string, len(x))
		for i, e := range x {
			parts[i] = ws() + spellJSON(t, e) + ws()
		}
		return "[" + strings.Join(parts, ",") + "]"
	case map[string]interface{}:
		parts := []string{}
		for _, k := range ref.SortedKeys(x) {
			parts = append(parts, ws()+`"`+escapeJSONString(t, k, '`')+`"`+ws()+":"+ws()+spellJSON(t, x[k]))
		}
		return "{" + strings.Join(parts, ",") + "}"
	}
	return ref.Canon(v)
}

func genHardValue(t *rapid.T, depth int) interface{} {
	k := rapid.IntRange(0, 7).Draw(t, "hvKind")
	if depth >= 3 && k >= 6 {
		k = 0
	}
	switch k {
	case 0, 1, 2:
		return genHardString(t, "hv")
	case 3:
		return genScalar(t)
	case 4:
		return rapid.Float64Range(-1e15, 1e15).Draw(t, "hvNum")
	case 5:
		return float64(rapid.Int64Range(-1<<53, 1<<53).Draw(t, "hvInt"))
	case 6:
		n := rapid.IntRange(0, 3).Draw(t, "hvArr")
		a := make([]interface{}, n)
		for i := range a {
			a[i] = genHardValue(t, depth+1)
		}
		return a
	default:
		n := rapid.IntRange(0, 3).Draw(t, "hvObj")
		m := map[string]interface{}{}
		for i := 0; i < n; i++ {
			m[genHardString(t, "hvKey")] = genHardValue(t, depth+1)
		}
		return m
	}
}

// unescapeBackticks undoes the literal-level escape \` -> ` pairwise (a
// backslash always consumes the following character).
func unescapeBackticks(s string) string {
	var sb strings.Builder
	for i := 0; i < len(s); i++ {
		if s[i] == '\\' && i+1 < len(s) {
			if s[i+1] == '`' {
				sb.WriteByte('`')
			} else {
				sb.WriteByte(s[i])
				sb.WriteByte(s[i+1])
			}
			i++
			continue
		}
		sb.WriteByte(s[i])
	}
	return sb.String()
}

func TestC14Literal(t *testing.T) {
	rapid.Check(t, func(t *rapid.T) {
		v := genHardValue(t, 0)
		text := spellJSON(t, v)
		// the standard library is the referee of what the spelling denotes
		dec, err := ref.ParseJSON(unescapeBackticks(text))
		if err != nil || !reflect.DeepEqual(dec, v) {
			t.Fatalf("HARNESS-ERROR: JSON speller wrote %q for %s (%v)", text, ref.Canon(v), err)
		}
		// JSON white space may surround the value inside the backticks as well
		pad := func(label string) string { return []string{"", "", " ", "\n", "\t", " \r\n "}[uni(t, 6, label)] }
		expr := "`" + pad("padL") + text + pad("padR") + "`"
		run(t, Case{Property: "C14", Kind: "literal", Expr: expr, Doc: ref.Canon(v)})
	})
}

// TestC14Identifiers: all 1- and 2-character ASCII strings (and 3-character ones
// over a reduced alphabet), plus non-ASCII letters.
func TestC14Identifiers(t *testing.T) {
	n := 0
	for a := 0; a < 128; a++ {
		run(t, Case{Property: "C14", Kind: "unquoted", Expr: string(rune(a))})
		n++
		for b := 0; b < 128; b++ {
			run(t, Case{Property: "C14", Kind: "unquoted", Expr: string(rune(a)) + string(rune(b))})
			n++
		}
	}
	alpha3 := []rune("aZ_09-. \t@\"'`é[]\u0080ªıK")
	for _, a := range alpha3 {
		for _, b := range alpha3 {
			for _, c := range alpha3 {
				run(t, Case{Property: "C14", Kind: "unquoted", Expr: string(a) + string(b) + string(c)})
				n++
			}
		}
	}
	for _, s := range []string{"é", "aé", "éa", "a\u0080", "aÿ", "aĀ", "ａ", "a１", "á", "_​", "Ω", "a\U0001d4b3", "a ", "K", "ſ", "ı"} {
		run(t, Case{Property: "C14", Kind: "unquoted", Expr: s})
		n++
	}
	st := statsFor("C14")
	st.mu.Lock()
	st.Exhaustive["C14.identifiers"] = fmt.Sprintf("all 1- and 2-character ASCII strings, all 3-character strings over a %d-character alphabet, non-ASCII letters: %d strings", len(alpha3), n)
	st.mu.Unlock()
}

// predWhitespace: Expr (single spaces between tokens) and Extra["alt"] (same
// tokens, other whitespace) must compile alike and to the same AST.
func predWhitespace(c Case) (r Result) {
	a, b := c.expr(), c.Extra["alt"].(string)
	da, ea, pa := libDump(a)
	db, eb, pb := libDump(b)
	if pa != nil || pb != nil {
		r.Violation = "Parse panicked"
		r.Got = fmt.Sprint(pa, pb)
		return
	}
	r.Nontrivial = strings.ContainsAny(b, "\t\n\r") || len(b) < len(a)
	if (ea != nil) != (eb != nil) {
		r.Violation = "whitespace between tokens changes whether the expression compiles"
		r.Expected, r.Got = fmt.Sprintf("%q: %v", a, ea), fmt.Sprintf("%q: %v", b, eb)
		return
	}
	if ea == nil && da != db {
		r.Violation = "whitespace between tokens changes the meaning of the expression"
		r.Expected, r.Got = da, db
	}
	return
}

// TestC14Whitespace: every token boundary with every kind of whitespace.
func TestC14Whitespace(t *testing.T) {
	rapid.Check(t, func(t *rapid.T) {
		lex := genSentence(t, 4+rapid.IntRange(0, 12).Draw(t, "budget"))
		if rapid.IntRange(0, 4).Draw(t, "mut") == 0 {
			lex = mutate(t, lex)
		}
		spaced := ref.RenderSpaced(lex)
		seps := make([]string, len(lex))
		for i := range seps {
			seps[i] = []string{"", " ", "\t", "\n", "\r", "\r\n", " \t ", "\n\n"}[rapid.IntRange(0, 7).Draw(t, "sep")]
		}
		alt := ref.Render(lex, func(i int) string { return seps[i] })
		switch rapid.IntRange(0, 3).Draw(t, "edge") {
		case 0:
			alt = "\t" + alt + "\n"
		case 1:
			alt = " \r\n" + alt
		}
		run(t, Case{Property: "C14", Kind: "ws", Expr: spaced, Extra: map[string]interface{}{"alt": alt}})
	})
}

// predMixed: Expr is a multi-select list (or hash) of several string-like tokens; Doc maps
// every quoted name to a marker; Extra["want"] is the canonical JSON of the value every
// token must denote in its position (scanner state carried from one token to the next).
func predMixed(c Case) (r Result) {
	doc := mustJSON(c.Doc)
	want := mustJSON(c.Extra["want"].(string))
	expr := c.expr()
	// the reference model reads the tokens independently of the generator's bookkeeping
	if rv, rerr := refEval(expr, doc); rerr != nil || !reflect.DeepEqual(rv, want) {
		r.Discard = "HARNESS:mixed-token-bookkeeping"
		r.Violation = fmt.Sprintf("generator expects %s, reference model says %s (%v)", ref.Canon(want), show(rv), rerr)
		return
	}
	r.Nontrivial = true
	for _, o := range []libOut{libSearch(expr, doc), libCompileSearch(expr, doc)} {
		if o.Panic != nil || o.Err != nil {
			r.Violation = "an expression made of valid string-like tokens was not accepted"
			r.Got = showOut(o)
			return
		}
		if !reflect.DeepEqual(o.Val, want) {
			r.Violation = "a string-like token after other string-like tokens does not denote what it spells"
			r.Expected, r.Got = ref.Canon(want), show(o.Val)
			return
		}
	}
	return
}

// TestC14Mixed: two to six raw strings, quoted identifiers, literals and unquoted
// identifiers in one expression, hard characters in each.
func TestC14Mixed(t *testing.T) {
	rapid.Check(t, func(t *rapid.T) {
		n := 2 + uni(t, 5, "n")
		doc := map[string]interface{}{}
		marker := func(s string) interface{} {
			if m, ok := doc[s]; ok {
				return m
			}
			m := fmt.Sprintf("M%d", len(doc))
			doc[s] = m
			return m
		}
		toks := make([]string, n)
		vals := make([]interface{}, n)
		for i := 0; i < n; i++ {
			switch uni(t, 6, "kind") {
			case 4, 5:
				// the same characters between different delimiters: 'true' is a string, `true` a boolean,
				// "true" a field name (anything that remembers a token by its text alone confuses them)
				text := []string{"1", "true", "null", "0.5", "-0", "[1]", "{}", "12", "false", "\"a\"", "[]", "1e2"}[uni(t, 12, "twinText")]
				switch uni(t, 3, "twinKind") {
				case 0:
					toks[i], vals[i] = "'"+text+"'", text
				case 1:
					toks[i], vals[i] = "`"+text+"`", mustJSON(text)
				default:
					if strings.ContainsAny(text, "\"") {
						toks[i], vals[i] = "'"+text+"'", text
					} else {
						toks[i], vals[i] = `"`+text+`"`, marker(text)
					}
				}
			case 0:
				s := genHardString(t, "raw")
				if !inRawDomain(s) {
					s = "it's \\y"
				}
				toks[i], vals[i] = "'"+strings.Replace(s, "'", "\\'", -1)+"'", s
			case 1:
				s := genHardString(t, "q")
				toks[i], vals[i] = `"`+escapeJSONString(t, s, '"')+`"`, marker(s)
			case 2:
				v := genHardValue(t, 1)
				text := spellJSON(t, v)
				if dec, err := ref.ParseJSON(unescapeBackticks(text)); err != nil || !reflect.DeepEqual(dec, v) {
					t.Fatalf("HARNESS-ERROR: JSON speller wrote %q for %s (%v)", text, ref.Canon(v), err)
				}
				toks[i], vals[i] = "`"+text+"`", v
			default:
				s := []string{"a", "b_1", "Zz", "_", "null", "true"}[uni(t, 6, "ident")]
				toks[i], vals[i] = s, marker(s)
			}
		}
		sep := []string{",", ", ", " ,\n", ",\t"}[uni(t, 4, "sep")]
		var expr string
		var want interface{}
		if uni(t, 3, "hash") == 0 {
			parts := make([]string, n)
			m := map[string]interface{}{}
			for i := range toks {
				k := genHardString(t, "key")
				parts[i] = `"` + escapeJSONString(t, k, '"') + `":` + toks[i]
				m[k] = vals[i] // a repeated key keeps the last value
			}
			expr, want = "{"+strings.Join(parts, sep)+"}", m
		} else {
			expr, want = "["+strings.Join(toks, sep)+"]", vals
		}
		run(t, Case{Property: "C14", Kind: "mixed", Expr: expr, Doc: ref.Canon(doc), Extra: map[string]interface{}{"want": ref.Canon(want)}})
	})
}

func refEval(expr string, doc interface{}) (interface{}, error) {
	toks, st, why := ref.Lex(expr)
	if st != ref.LexOK {
		return nil, fmt.Errorf("not lexable: %s", why)
	}
	n, err := ref.Parse(toks)
	if err != nil {
		return nil, err
	}
	return (&ref.Ev{}).Eval(n, ref.DeepCopy(doc))
}

package harness

// C05, "time bounded by the size of the expression, the document and the result": besides
// the 20 s watchdog of predRobust, a dose-response check. Every family of inputs is run at
// size k and 8k; the CPU time of the calling thread (clock_gettime(CLOCK_THREAD_CPUTIME_ID), not the wall
// clock, so that a busy machine does not matter) must not grow by more than 24x (linear: 8x,
// n log n: ~10x, quadratic: 64x) - and the verdict is only drawn when the large run burns
// more than a second of CPU, three orders of magnitude above what the unchanged library
// needs for a 64 KiB input, so that neither timer granularity nor the mildly superlinear cost
// of deep recursion under Go's garbage collector (every collection rescans the whole stack:
// 32768 nested '.*' cost 86 ms, 62x the 4096 case) can produce it.

import (
	"fmt"
	"runtime"
	"strings"
	"syscall"
	"testing"
	"time"
	"unsafe"

	jp "github.com/jmespath/go-jmespath"
)

func init() { predicates["scaling"] = predScaling }

type scaleFamily struct {
	name string
	expr func(k int) string
	doc  func(k int) interface{} // nil: the document is null
}

func rep(s string, k int) string { return strings.Repeat(s, k) }

func numArray(k int) interface{} {
	a := make([]interface{}, k)
	for i := range a {
		a[i] = float64((i * 7919) % 10007)
	}
	return a
}

func strArray(k int) interface{} {
	a := make([]interface{}, k)
	for i := range a {
		a[i] = fmt.Sprintf("s%d", (i*7919)%10007)
	}
	return a
}

func objArray(k int) interface{} {
	a := make([]interface{}, k)
	for i := range a {
		a[i] = map[string]interface{}{"a": float64((i * 7919) % 10007), "b": []interface{}{float64(i)}}
	}
	return a
}

func bigObject(k int) interface{} {
	m := make(map[string]interface{}, k)
	for i := 0; i < k; i++ {
		m[fmt.Sprintf("k%d", i)] = float64(i)
	}
	return m
}

func nestedArray(k int) interface{} {
	var v interface{} = []interface{}{1.0}
	for i := 0; i < k; i++ {
		v = []interface{}{v}
	}
	return v
}

func constExpr(e string) func(int) string { return func(int) string { return e } }

var scaleFamilies = []scaleFamily{
	{"expr.dots", func(k int) string { return "a" + rep(".a", k) }, nil},
	{"expr.or", func(k int) string { return "a" + rep("||a", k) }, nil},
	{"expr.and", func(k int) string { return "a" + rep("&&a", k) }, nil},
	{"expr.pipe", func(k int) string { return "a" + rep("|a", k) }, nil},
	{"expr.eq", func(k int) string { return "a" + rep("==a", k) }, nil},
	{"expr.index", func(k int) string { return "a" + rep("[0]", k) }, nil},
	{"expr.flatten", func(k int) string { return "a" + rep("[]", k) }, nil},
	{"expr.star", func(k int) string { return "a" + rep("[*]", k) }, nil},
	{"expr.filter", func(k int) string { return "a" + rep("[?a]", k/2) }, nil},
	{"expr.slice", func(k int) string { return "a" + rep("[1:]", k/2) }, nil},
	{"expr.objstar", func(k int) string { return "a" + rep(".*", k) }, nil},
	{"expr.list", func(k int) string { return "[" + rep("a,", k) + "a]" }, nil},
	{"expr.hash", func(k int) string { return "{" + rep("a:a,", k/2) + "a:a}" }, nil},
	{"expr.not", func(k int) string { return rep("!", k) + "a" }, nil},
	{"expr.parens", func(k int) string { return rep("(", k/4) + "a" + rep(")", k/4) }, nil},
	{"expr.calls", func(k int) string { return rep("abs(", k/8) + "a" + rep(")", k/8) }, nil},
	{"expr.args", func(k int) string { return "not_null(" + rep("a,", k) + "a)" }, nil},
	{"expr.raw", func(k int) string { return "'" + rep("x", 2*k) + "'" }, nil},
	{"expr.raw-escapes", func(k int) string { return "'" + rep("\\'", k) + "'" }, nil},
	{"expr.quoted", func(k int) string { return "\"" + rep("x", 2*k) + "\"" }, nil},
	{"expr.quoted-escapes", func(k int) string { return "\"" + rep("\\n", k) + "\"" }, nil},
	{"expr.literal-string", func(k int) string { return "`\"" + rep("x", 2*k) + "\"`" }, nil},
	{"expr.literal-array", func(k int) string { return "`[" + rep("1,", k) + "1]`" }, nil},
	{"expr.literal-ticks", func(k int) string { return "`\"" + rep("\\`", k) + "\"`" }, nil},
	{"expr.identifier", func(k int) string { return rep("a", 2*k) }, nil},
	{"expr.number", func(k int) string { return "a[" + rep("1", 2*k) + "]" }, nil},
	{"expr.spaces", func(k int) string { return "a" + rep(" ", 2*k) + "|" + rep("\n", k) + "a" }, nil},
	{"expr.unclosed-raw", func(k int) string { return "'" + rep("\\'", k) }, nil},
	{"expr.unclosed-quoted", func(k int) string { return "\"" + rep("\\\"", k) }, nil},
	{"expr.error-late", func(k int) string { return "a" + rep(".a", k) + " a" }, nil},
	{"expr.bad-bytes", func(k int) string { return "a" + rep("|a", k) + "\xff" }, nil},
	{"expr.many-literals", func(k int) string { return "[" + rep("`1`,", k/2) + "'x']" }, nil},
	{"expr.many-quoted", func(k int) string { return "[" + rep("\"q\",", k/2) + "'x']" }, nil},
	{"doc.sort", constExpr("sort(@)"), numArray},
	{"doc.sort-strings", constExpr("sort(@)"), strArray},
	{"doc.sort_by", constExpr("sort_by(@, &a)"), objArray},
	{"doc.max_by", constExpr("max_by(@, &a)"), objArray},
	{"doc.reverse", constExpr("reverse(@)"), numArray},
	{"doc.star", constExpr("[*].a"), objArray},
	{"doc.filter", constExpr("[?a > `5000`].b"), objArray},
	{"doc.flatten", constExpr("[].b[]"), objArray},
	{"doc.flatten-deep", func(k int) string { return "@" + rep("[]", k/16) }, func(k int) interface{} { return nestedArray(k / 16) }},
	{"doc.join", constExpr("join('', @)"), strArray},
	{"doc.contains", constExpr("contains(@, `-1`)"), numArray},
	{"doc.contains-string", constExpr("contains(@, 'xy')"), func(k int) interface{} { return rep("x", 16*k) }},
	{"doc.max", constExpr("[max(@), min(@), sum(@), avg(@)]"), numArray},
	{"doc.map", constExpr("map(&a, @)"), objArray},
	{"doc.to_string", constExpr("to_string(@)"), objArray},
	{"doc.length", constExpr("length(@)"), numArray},
	{"doc.keys", constExpr("[keys(@), values(@)] | length(@)"), bigObject},
	{"doc.merge", constExpr("merge(@, @)"), bigObject},
	{"doc.objstar", constExpr("* | length(@)"), bigObject},
	{"doc.slice-rev", constExpr("[::-1]"), numArray},
	{"doc.slice-step", constExpr("[::2]"), numArray},
	{"doc.eq", constExpr("@ == @"), objArray},
	{"doc.string-reverse", constExpr("reverse(@)"), func(k int) interface{} { return rep("xé", 8*k) }},
	{"doc.string-length", constExpr("length(@)"), func(k int) interface{} { return rep("xé", 8*k) }},
	{"doc.starts_with", constExpr("[starts_with(@, 'xx'), ends_with(@, 'xx')]"), func(k int) interface{} { return rep("x", 16*k) }},
	{"doc.list-of-copies", constExpr("[@, @, @][]"), numArray},
	{"doc.proj-pipe", constExpr("[*].a | [?@ > `1`] | [0]"), objArray},
}

func threadCPU() time.Duration {
	// clock_gettime(CLOCK_THREAD_CPUTIME_ID): nanosecond resolution, this thread only
	var ts syscall.Timespec
	const clockThreadCPUTimeID = 3
	if _, _, errno := syscall.Syscall(syscall.SYS_CLOCK_GETTIME, clockThreadCPUTimeID, uintptr(unsafe.Pointer(&ts)), 0); errno != 0 {
		return -1
	}
	return time.Duration(ts.Nano())
}

// cpuOf: the least CPU time of `reps` runs of Compile + Search + error rendering.
func cpuOf(expr string, doc interface{}, reps int) (best time.Duration, pan interface{}) {
	runtime.LockOSThread()
	defer runtime.UnlockOSThread()
	best = -1
	for i := 0; i < reps; i++ {
		t0 := threadCPU()
		pan = safely(func() {
			c, err := jp.Compile(expr)
			if err != nil {
				if se, ok := err.(jp.SyntaxError); ok {
					_ = se.HighlightLocation()
				}
				_ = err.Error()
				return
			}
			_, _ = c.Search(doc)
		})
		d := threadCPU() - t0
		if pan != nil {
			return d, pan
		}
		if best < 0 || d < best {
			best = d
		}
	}
	return best, nil
}

const (
	scaleSmall  = 4096
	scaleFactor = 8
	scaleFloor  = time.Second
	scaleRatio  = 24
)

func predScaling(c Case) (r Result) {
	name, _ := c.Extra["family"].(string)
	var fam *scaleFamily
	for i := range scaleFamilies {
		if scaleFamilies[i].name == name {
			fam = &scaleFamilies[i]
		}
	}
	if fam == nil {
		r.Discard = "HARNESS:unknown-scaling-family"
		r.Violation = name
		return
	}
	if threadCPU() < 0 {
		r.Discard = "inconclusive:no-thread-cpu-clock"
		return
	}
	docOf := func(k int) interface{} {
		if fam.doc == nil {
			return nil
		}
		return fam.doc(k)
	}
	// expressions are bounded by 64 KiB (the property's quantifier); documents are not
	sm := scaleSmall
	if fam.doc != nil {
		sm *= 4
	}
	small, pan := cpuOf(fam.expr(sm), docOf(sm), 3)
	if pan != nil {
		r.Violation = "panic"
		r.Got = fmt.Sprint(pan)
		return
	}
	big, pan := cpuOf(fam.expr(sm*scaleFactor), docOf(sm*scaleFactor), 2)
	if pan != nil {
		r.Violation = "panic"
		r.Got = fmt.Sprint(pan)
		return
	}
	if getenv("VERIF_SCALE_VERBOSE") != "" {
		fmt.Printf("SCALE %-24s small=%-12v big=%-12v ratio=%.1f\n", name, small, big, float64(big)/float64(small+1))
	}
	r.Nontrivial = true
	r.class("scaling." + strings.SplitN(name, ".", 2)[0])
	base := small
	if base < time.Millisecond {
		base = time.Millisecond
	}
	if big > scaleFloor && big > scaleRatio*base {
		r.Violation = fmt.Sprintf("time is not bounded by the size of the input: family %s needs %v of CPU at size %d and %v at size %d (x%d size, x%.0f time; linear growth is x%d)",
			name, small, sm, big, sm*scaleFactor, scaleFactor, float64(big)/float64(base), scaleFactor)
		r.Expected, r.Got = fmt.Sprintf("at most %dx", scaleRatio), fmt.Sprintf("%.0fx", float64(big)/float64(base))
	}
	return
}

// TestC05Scaling: every family once.
func TestC05Scaling(t *testing.T) {
	shard, nshards := envInt("VERIF_SHARD", 0), envInt("VERIF_NSHARDS", 1)
	n := 0
	for i, f := range scaleFamilies {
		if i%nshards != shard {
			continue
		}
		run(t, Case{Property: "C05", Kind: "scaling", Before: []string{}, Extra: map[string]interface{}{"family": f.name}})
		n++
	}
	st := statsFor("C05")
	st.mu.Lock()
	st.Exhaustive["C05.scaling"] = fmt.Sprintf("%d input families (token runs of every operator, long tokens of every kind, late errors; array, object and string functions on big documents) at sizes %d and %d (documents: x4): thread CPU time may grow at most %dx, judged only above %v of CPU (shard %d/%d: %d)",
		len(scaleFamilies), scaleSmall, scaleSmall*scaleFactor, scaleRatio, scaleFloor, shard, nshards, n)
	st.mu.Unlock()
}

package harness

// C07 (truthiness, logical operators, comparators), C08 (slices), C09 (function
// values), C10 (function errors), C11 (error propagation).

import (
	"bufio"
	"fmt"
	jp "github.com/jmespath/go-jmespath"
	"math/big"
	"os"
	"path/filepath"
	"strconv"
	"strings"
	"testing"

	"pgregory.net/rapid"

	"verifharness/ref"
)

// ---------------------------------------------------------------------------
// C07

var universeC07 = []string{
	"null", "true", "false", "0", "-0", "1", "-1", "1.5", "1e15", `""`, `"a"`, `"0"`, `"false"`, `"null"`,
	"[]", "[0]", "[[]]", "[null]", "[1,2]", "{}", `{"a":null}`, `{"a":1}`, `{"a":[]}`, `{"a":{"b":1}}`,
	`{"b":null}`, `{"b":false}`, `{"a":null,"b":1}`, `{"a":1,"b":null}`, `[2,1]`, `[{"a":null}]`, `[{"b":null}]`, `[1,[2]]`, `[1,[2,null]]`, `"1"`, `{"a":{"c":1}}`, `{"a":{"b":null}}`,
	// representation: strings that start with a replacement character, DEL or an astral character; numbers in exponent form and beyond 2^53
	`"\ufffd"`, `"\ufffdabc"`, `"\u007f"`, `"𝄞"`, "1e21", "1e-7", "9007199254740993", "0.30000000000000004",
	// arrays and objects one of which is a prefix / subset of the other
	"[1]", "[1,2,3]", `{"a":1,"b":null,"c":2}`, `[[1,2],[1]]`, `[[1],[1,2]]`, `"ab"`, `"abc"`,
}

var binOpsC07 = []string{"||", "&&", "==", "!=", "<", "<=", ">", ">="}

func lit(jsonText string) string { return "`" + strings.Replace(jsonText, "`", "\\`", -1) + "`" }

// TestC07Exhaustive: all value pairs x all operators x three carriers, plus
// unary not, filter truthiness and short-circuit behaviour.
func TestC07Exhaustive(t *testing.T) {
	st := statsFor("C07")
	n := 0
	erring := "abs(`\"x\"`)"
	for _, x := range universeC07 {
		for _, y := range universeC07 {
			for _, op := range binOpsC07 {
				// carrier 1: literals
				run(t, Case{Property: "C07", Kind: "diff", Expr: lit(x) + " " + op + " " + lit(y), Doc: "null", Extra: map[string]interface{}{"cell": "lit"}})
				// carrier 2: fields
				doc := `{"a":` + x + `,"b":` + y + `}`
				run(t, Case{Property: "C07", Kind: "diff", Expr: "a " + op + " b", Doc: doc, Extra: map[string]interface{}{"cell": "field"}})
				// carrier 3: filter condition over two elements
				fdoc := `[{"a":` + x + `,"b":` + y + `,"i":1},{"a":` + y + `,"b":` + x + `,"i":2}]`
				run(t, Case{Property: "C07", Kind: "diff", Expr: "[?a " + op + " b].i", Doc: fdoc, Extra: map[string]interface{}{"cell": "filter"}})
				// carriers 4-6: the result under one and two negations (null, false and true stay distinct
				// values there) and as an operand of the other operators
				run(t, Case{Property: "C07", Kind: "diff", Expr: "[!(a " + op + " b), !!(a " + op + " b), (a " + op + " b) == `false`, (a " + op + " b) || 'alt', (a " + op + " b) && 'alt']", Doc: doc, Extra: map[string]interface{}{"cell": "negated"}})
				run(t, Case{Property: "C07", Kind: "diff", Expr: "[?!(a " + op + " b)].i", Doc: fdoc, Extra: map[string]interface{}{"cell": "filter-negated"}})
				run(t, Case{Property: "C07", Kind: "diff", Expr: "[?!(a " + op + " b) || !!(b " + op + " a)].i", Doc: fdoc, Extra: map[string]interface{}{"cell": "filter-negated-or"}})
				n += 6
			}
		}
		// unary
		run(t, Case{Property: "C07", Kind: "diff", Expr: "!" + lit(x), Doc: "null", Extra: map[string]interface{}{"cell": "not-lit"}})
		run(t, Case{Property: "C07", Kind: "diff", Expr: "!a", Doc: `{"a":` + x + `}`, Extra: map[string]interface{}{"cell": "not-field"}})
		run(t, Case{Property: "C07", Kind: "diff", Expr: "!!a", Doc: `{"a":` + x + `}`, Extra: map[string]interface{}{"cell": "notnot-field"}})
		// short circuit: the right operand is an error
		run(t, Case{Property: "C07", Kind: "diff", Expr: lit(x) + " || " + erring, Doc: "null", Extra: map[string]interface{}{"cell": "or-err"}})
		run(t, Case{Property: "C07", Kind: "diff", Expr: lit(x) + " && " + erring, Doc: "null", Extra: map[string]interface{}{"cell": "and-err"}})
		run(t, Case{Property: "C07", Kind: "diff", Expr: "a || " + erring, Doc: `{"a":` + x + `}`, Extra: map[string]interface{}{"cell": "or-err-field"}})
		run(t, Case{Property: "C07", Kind: "diff", Expr: "a && " + erring, Doc: `{"a":` + x + `}`, Extra: map[string]interface{}{"cell": "and-err-field"}})
		// a failing operand under '!' combined with the other operators: the failure must not be read as a truth value
		for _, e := range []string{"!" + erring + " && " + lit(x), "!" + erring + " || " + lit(x), lit(x) + " && !" + erring, lit(x) + " || !" + erring, "!(" + lit(x) + " && " + erring + ")", "!(" + lit(x) + " || " + erring + ")", "[?!" + erring + " && a]", "!" + erring + " == " + lit(x)} {
			run(t, Case{Property: "C07", Kind: "diff", Expr: e, Doc: `[{"a":` + x + `}]`, Extra: map[string]interface{}{"cell": "not-err"}})
			n++
		}
		n += 7
	}
	// filters over the universe itself
	all := "[" + strings.Join(universeC07, ",") + "]"
	for _, e := range []string{"[?@]", "[?!@]", "[?@ || `false`]", "[?@ && `true`]", "[?@ == @]", "[?@ != @]", "[?@ < `1`]", "[?@ >= `0`]", "[?!(@ == `0`)]", "[?@ == `0` || @ == `\"0\"`]"} {
		run(t, Case{Property: "C07", Kind: "diff", Expr: e, Doc: all, Extra: map[string]interface{}{"cell": "filter-universe"}})
		n++
	}
	st.mu.Lock()
	st.Exhaustive["C07.truth-tables"] = fmt.Sprintf("%d values x %d values x %d binary operators x 3 carriers, unary not, short-circuit with erroring right operand, filters over the universe: %d cases", len(universeC07), len(universeC07), len(binOpsC07), n)
	st.mu.Unlock()
}

// nearValue returns a value structurally close to v (renamed key, null vs
// missing member, reordered array, number off by one, number vs its string):
// the pairs on which a sloppy equality is most likely to go wrong.
func nearValue(t *rapid.T, v interface{}) interface{} {
	switch x := v.(type) {
	case map[string]interface{}:
		out := map[string]interface{}{}
		keys := ref.SortedKeys(x)
		if len(keys) == 0 {
			return map[string]interface{}{"a": nil}
		}
		pick := rapid.IntRange(0, len(keys)-1).Draw(t, "nvKey")
		mode := rapid.IntRange(0, 3).Draw(t, "nvObjMode")
		for i, k := range keys {
			if i != pick {
				out[k] = x[k]
				continue
			}
			switch mode {
			case 0: // rename the key
				out[k+"_"] = x[k]
			case 1: // member replaced by null under another name
				out[k+"_"] = nil
			case 2: // drop the member
			default:
				out[k] = nearValue(t, x[k])
			}
		}
		return out
	case []interface{}:
		if len(x) == 0 {
			return []interface{}{nil}
		}
		out := append([]interface{}{}, x...)
		switch rapid.IntRange(0, 3).Draw(t, "nvArrMode") {
		case 0:
			out[0], out[len(out)-1] = out[len(out)-1], out[0]
		case 1:
			out = append(out, nil)
		case 2:
			out = out[:len(out)-1]
		default:
			i := rapid.IntRange(0, len(out)-1).Draw(t, "nvIdx")
			out[i] = nearValue(t, out[i])
		}
		return out
	case float64:
		if rapid.Bool().Draw(t, "nvNumStr") {
			return ref.FormatNumber(x)
		}
		return x + 1
	case string:
		if f, err := strconv.ParseFloat(x, 64); err == nil && rapid.Bool().Draw(t, "nvStrNum") {
			return f
		}
		return x + " "
	case bool:
		return !x
	case nil:
		return false
	}
	return v
}

// TestC07Near: equality and ordering between a value found in the document and
// a structurally close value, in every carrier.
func TestC07Near(t *testing.T) {
	rapid.Check(t, func(t *rapid.T) {
		v := genValue(t, 1, docOpts{maxDepth: 4, maxWidth: 3})
		w := nearValue(t, v)
		if rapid.IntRange(0, 3).Draw(t, "twice") == 0 {
			w = nearValue(t, w)
		}
		op := cmpOps[rapid.IntRange(0, len(cmpOps)-1).Draw(t, "op")]
		if rapid.Bool().Draw(t, "swap") {
			v, w = w, v
		}
		doc := map[string]interface{}{"a": v, "b": w, "l": []interface{}{map[string]interface{}{"a": v, "b": w}, map[string]interface{}{"a": w, "b": v}, map[string]interface{}{"a": v, "b": v}}}
		var expr string
		switch rapid.IntRange(0, 4).Draw(t, "carrier") {
		case 0:
			expr = ref.SpellLiteral(v) + " " + op + " " + ref.SpellLiteral(w)
		case 1:
			expr = "a " + op + " b"
		case 2:
			expr = "l[?a " + op + " b] | length(@)"
		case 3:
			expr = "!(a " + op + " b) || (b " + op + " " + ref.SpellLiteral(v) + ")"
		default:
			expr = "contains(`[1]`, `2`) || [a " + op + " b, b " + op + " a, a " + op + " a]"
		}
		run(t, Case{Property: "C07", Kind: "diff", Expr: expr, Doc: ref.Canon(doc), Extra: map[string]interface{}{"cell": "near"}})
	})
}

// TestC07Random: random nestings of the boolean operators (also inside filters).
func TestC07Random(t *testing.T) {
	rapid.Check(t, func(t *rapid.T) {
		doc := genDoc(t)
		g := &exprGen{t: t, f: fragBool}
		var lex []string
		if rapid.IntRange(0, 3).Draw(t, "inFilter") == 0 {
			lex = join([]string{"[?"}, g.boolean(firstElem(doc), 1), []string{"]"})
		} else {
			lex = g.boolean(doc, 0)
		}
		run(t, caseDiff("C07", renderRandom(t, lex), doc))
	})
}

// ---------------------------------------------------------------------------
// C08

func init() { predicates["slice"] = predSlice }

func markerArray(n int) string {
	parts := make([]string, n)
	for i := range parts {
		parts[i] = strconv.Itoa(100 + i)
	}
	return "[" + strings.Join(parts, ",") + "]"
}

func sliceExpr(a, b, c string) string {
	p := func(s string) string {
		if s == "_" {
			return ""
		}
		return s
	}
	if c == "_" {
		return "[" + p(a) + ":" + p(b) + "]"
	}
	return "[" + p(a) + ":" + p(b) + ":" + p(c) + "]"
}

// predSlice: Extra = {len, a, b, c, want ("-", "E" or comma list; optional), carrier}
func predSlice(c Case) (r Result) {
	n := int(c.Extra["len"].(float64))
	a, b, cc := c.Extra["a"].(string), c.Extra["b"].(string), c.Extra["c"].(string)
	carrier, _ := c.Extra["carrier"].(string)
	se := sliceExpr(a, b, cc)
	if cc == "_" && c.Extra["twocolon"] == true {
		se = strings.Replace(se, "]", ":]", 1)
	}
	// expected indices: from the golden line when given, else from the reference model
	var wantIdx []int
	wantErr := false
	if w, ok := c.Extra["want"].(string); ok {
		switch w {
		case "E":
			wantErr = true
		case "-":
		default:
			for _, s := range strings.Split(w, ",") {
				v, _ := strconv.Atoi(s)
				wantIdx = append(wantIdx, v)
			}
		}
	} else {
		opt := func(s string) *big.Int {
			if s == "_" {
				return nil
			}
			v, _ := new(big.Int).SetString(s, 10)
			return v
		}
		idx, err := ref.SliceIndices(n, opt(a), opt(b), opt(cc))
		wantErr = err != nil
		wantIdx = idx
	}
	want := make([]interface{}, 0, len(wantIdx))
	for _, i := range wantIdx {
		want = append(want, float64(100+i))
	}
	var expr string
	var doc interface{}
	var typed interface{}
	arr := mustJSON(markerArray(n))
	switch carrier {
	case "", "root":
		expr, doc = se, arr
	case "field":
		expr, doc = "k"+se, map[string]interface{}{"k": arr}
	case "after-projection":
		// [*][a:b:c] on arrays of different lengths, the short ones first: a slice per element,
		// each by its own length (the slice node is evaluated once per element)
		opt := func(s string) *big.Int {
			if s == "_" {
				return nil
			}
			v, _ := new(big.Int).SetString(s, 10)
			return v
		}
		elems := []interface{}{}
		wants := []interface{}{}
		for _, m := range []int{0, 1, n / 2, n, n} {
			if m > n {
				m = n
			}
			full := mustJSON(markerArray(m)).([]interface{})
			elems = append(elems, full)
			idx, _ := ref.SliceIndices(m, opt(a), opt(b), opt(cc))
			w := make([]interface{}, 0, len(idx))
			for _, i := range idx {
				w = append(w, float64(100+i))
			}
			wants = append(wants, w)
		}
		expr, doc = "[*]"+se, elems
		if !wantErr {
			wants[3], wants[4] = want, ref.DeepCopy(want) // the full-length ones as the golden file says
			want = wants
		}
	case "rhs":
		// slices are projections: [a:b:c].x keeps the non-null x's
		objs := make([]interface{}, n)
		for i := range objs {
			if i%3 == 2 {
				objs[i] = map[string]interface{}{"y": 1.0}
			} else {
				objs[i] = map[string]interface{}{"x": float64(100 + i)}
			}
		}
		expr, doc = se+".x", objs
		w2 := []interface{}{}
		for _, i := range wantIdx {
			if i%3 != 2 {
				w2 = append(w2, float64(100+i))
			}
		}
		want = w2
	case "typed-float":
		f := make([]float64, n)
		for i := range f {
			f[i] = float64(100 + i)
		}
		expr, typed = se, f
	case "typed-string":
		s := make([]string, n)
		for i := range s {
			s[i] = strconv.Itoa(100 + i)
		}
		expr, typed = se, s
		w2 := make([]interface{}, len(want))
		for i, v := range want {
			w2[i] = strconv.Itoa(int(v.(float64)))
		}
		want = w2
	case "non-array":
		expr = se
		doc = c.Extra["value"]
		want = nil
		wantErr = false
	default:
		r.Discard = "HARNESS:unknown-carrier"
		return
	}
	if typed != nil {
		doc = typed
	}
	r.Nontrivial = true
	switch {
	case carrier == "non-array":
		r.class("slice.non-array")
	case wantErr:
		r.class("slice.step0")
	case len(wantIdx) > 0:
		r.class("slice.nonempty")
	default:
		r.class("slice.empty")
	}
	r.class("carrier." + carrier)
	// third leg: the compiled expression is kept, other expressions are compiled and searched
	// meanwhile (whatever the parser hands out must stay the compiled expression's own), then it is searched
	kept := libOut{}
	kept.Panic = safely(func() {
		c, err := jp.Compile(expr)
		if err != nil {
			kept.Err = err
			return
		}
		kept.Compiled = true
		unrelatedParses()
		kept.Val, kept.Err = c.Search(doc)
	})
	for _, o := range []libOut{libSearch(expr, doc), libCompileSearch(expr, doc), kept} {
		if o.Panic != nil {
			r.Violation = "slice panicked"
			r.Got = showOut(o)
			return
		}
		if wantErr {
			if o.Err == nil {
				r.Violation = "a slice step of 0 on an array must be an error"
				r.Expected, r.Got = "error", showOut(o)
				return
			}
			continue
		}
		if o.Err != nil {
			r.Violation = "slice returned an error"
			r.Expected, r.Got = show(want), showOut(o)
			return
		}
		if carrier == "non-array" {
			if o.Val != nil {
				r.Violation = "slicing a non-array must yield null"
				r.Expected, r.Got = "null", show(o.Val)
			}
			continue
		}
		if !ref.Matches(o.Val, interface{}(want)) {
			r.Violation = "slice selects different elements than Python-style slicing (" + expr + " on length " + strconv.Itoa(n) + ")"
			r.Expected, r.Got = show(want), show(o.Val)
			return
		}
	}
	return
}

func goldenPath() string {
	dir := os.Getenv("VERIF_HARNESS_DIR")
	if dir == "" {
		dir = "."
	}
	return filepath.Join(dir, "testdata", "pyslice_golden.txt")
}

// TestC08Golden: every line of the CPython golden file (exhaustive window for
// lengths 0..8 and the 64-bit boundary grid) on every carrier.
func TestC08Golden(t *testing.T) {
	f, err := os.Open(goldenPath())
	if err != nil {
		t.Fatalf("HARNESS-ERROR: %v", err)
	}
	defer f.Close()
	shard, nshards := envInt("VERIF_SHARD", 0), envInt("VERIF_NSHARDS", 1)
	carriers := []string{"root", "field", "after-projection", "rhs", "typed-float", "typed-string"}
	sc := bufio.NewScanner(f)
	line := 0
	n := 0
	for sc.Scan() {
		line++
		if line%nshards != shard {
			continue
		}
		p := strings.Fields(sc.Text())
		ln, _ := strconv.Atoi(p[0])
		for ci, carrier := range carriers {
			// all carriers for the small window; the boundary grid on three of them
			if len(p[1]) > 4 || len(p[2]) > 4 || len(p[3]) > 4 {
				if ci%2 == 1 {
					continue
				}
			}
			c := Case{Property: "C08", Kind: "slice", Extra: map[string]interface{}{"len": float64(ln), "a": p[1], "b": p[2], "c": p[3], "want": p[4], "carrier": carrier}}
			c.Expr = sliceExpr(p[1], p[2], p[3])
			run(t, c)
			n++
		}
		if p[3] == "_" && line%7 == 0 {
			c := Case{Property: "C08", Kind: "slice", Expr: "twocolon", Extra: map[string]interface{}{"len": float64(ln), "a": p[1], "b": p[2], "c": p[3], "want": p[4], "carrier": "root", "twocolon": true}}
			run(t, c)
			n++
		}
	}
	st := statsFor("C08")
	st.mu.Lock()
	st.Exhaustive["C08.golden"] = fmt.Sprintf("CPython golden: lengths 0..8 x start,stop,step in {absent} U [-len-2,len+2] (34,776 triples) and the 15^3 boundary grid up to +/-(2^63-1), -2^63 for lengths 0..4, on carriers %v (shard %d/%d: %d cases)", carriers, shard, nshards, n)
	st.mu.Unlock()
}

// TestC08NonArray: slicing any non-array value yields null, also with step 0.
func TestC08NonArray(t *testing.T) {
	vals := []interface{}{nil, true, 0.0, 1.5, "", "abc", map[string]interface{}{}, map[string]interface{}{"a": []interface{}{1.0}}}
	parts := []string{"_", "0", "1", "-1", "2", "9223372036854775807", "-9223372036854775808"}
	for _, v := range vals {
		for _, a := range parts {
			for _, b := range parts {
				for _, c := range parts {
					run(t, Case{Property: "C08", Kind: "slice", Expr: sliceExpr(a, b, c), Extra: map[string]interface{}{"len": 0.0, "a": a, "b": b, "c": c, "carrier": "non-array", "value": v}})
				}
				run(t, Case{Property: "C08", Kind: "slice", Expr: sliceExpr(a, b, "0"), Extra: map[string]interface{}{"len": 0.0, "a": a, "b": b, "c": "0", "carrier": "non-array", "value": v}})
			}
		}
	}
}

// TestC08Padded: zero-padded slice parameters whose digits read differently in another base
// (010 = ten, not eight; 08 and 09 are numbers), in every position.
func TestC08Padded(t *testing.T) {
	vals := []string{"_", "010", "-010", "08", "-09", "0012", "00", "-00", "017", "0100", "-0011", "007"}
	n := 0
	for _, ln := range []float64{13, 120} {
		for _, a := range vals {
			for _, b := range vals {
				for _, c := range vals {
					for _, carrier := range []string{"root", "rhs", "typed-float"} {
						run(t, Case{Property: "C08", Kind: "slice", Expr: sliceExpr(a, b, c), Extra: map[string]interface{}{"len": ln, "a": a, "b": b, "c": c, "carrier": carrier}})
						n++
					}
				}
			}
		}
	}
	st := statsFor("C08")
	st.mu.Lock()
	st.Exhaustive["C08.padded"] = fmt.Sprintf("%d zero-padded spellings (incl. 08, 09, 010, 017, 0100) in every slice position x arrays of 13 and 120 elements x 3 carriers: %d slices", len(vals)-1, n)
	st.mu.Unlock()
}

// TestC08Random: larger arrays with random 64-bit parameters (oracle: reference
// slice model, itself calibrated against the golden file).
func TestC08Random(t *testing.T) {
	rapid.Check(t, func(t *rapid.T) {
		n := rapid.IntRange(0, 200).Draw(t, "len")
		part := func(label string) string {
			switch rapid.IntRange(0, 5).Draw(t, label+"Kind") {
			case 0:
				return "_"
			case 1:
				return strconv.FormatInt(rapid.Int64().Draw(t, label+"Big"), 10)
			case 2:
				return strconv.Itoa(rapid.IntRange(-3, 3).Draw(t, label+"Small"))
			default:
				return strconv.Itoa(rapid.IntRange(-n-3, n+3).Draw(t, label))
			}
		}
		a, b, c := part("start"), part("stop"), part("step")
		// leading zeros do not change a number ("number" is -?[0-9]+, read in base ten)
		pad := func(s, label string) string {
			if s == "_" || uni(t, 3, label+"Pad") != 0 {
				return s
			}
			z := strings.Repeat("0", 1+uni(t, 3, label+"Zeros"))
			if strings.HasPrefix(s, "-") {
				return "-" + z + s[1:]
			}
			return z + s
		}
		a, b, c = pad(a, "start"), pad(b, "stop"), pad(c, "step")
		carrier := rapid.SampledFrom([]string{"root", "field", "after-projection", "rhs", "typed-float", "typed-string"}).Draw(t, "carrier")
		run(t, Case{Property: "C08", Kind: "slice", Expr: sliceExpr(a, b, c), Extra: map[string]interface{}{"len": float64(n), "a": a, "b": b, "c": c, "carrier": carrier}})
	})
}

// ---------------------------------------------------------------------------
// C09 / C10: typed universes

// argument classes for the C10 matrix
var argClasses = []struct{ name, json string }{
	{"null", "null"}, {"true", "true"}, {"number", "1.5"}, {"string", `"s"`}, {"empty-array", "[]"},
	{"array-number", "[3,1,2]"}, {"array-string", `["b","a"]`}, {"array-mixed", `[1,"a",null]`}, {"array-nested", "[[1],[2]]"},
	{"array-objects", `[{"a":2},{"a":1}]`}, {"empty-object", "{}"}, {"object", `{"a":1,"b":"x"}`}, {"expref", "&@"},
	{"array-null-numbers", "[null,8,4]"}, {"array-numbers-null", "[4,null,2]"}, {"array-strings-number", `["b","a",1]`},
}

var unknownNames = []string{"foo", "Length", "abs2", "to_str", "_"}

// TestC10Matrix: names x arity 0..maxArity x argument classes, literal and field carriers.
func TestC10Matrix(t *testing.T) {
	maxArity := envInt("VERIF_C10_ARITY", 3)
	shard, nshards := envInt("VERIF_SHARD", 0), envInt("VERIF_NSHARDS", 1)
	names := append(append([]string{}, ref.FunctionNames...), unknownNames...)
	// under another property (C13: the same calls through the reuse legs of the differential
	// predicate; a literal argument lives in the AST of the compiled expression) both carriers
	// are used for every tuple
	prop := envStr("VERIF_PROP", "C10")
	st := statsFor(prop)
	// document for the field carrier: one field per class
	docParts := []string{}
	for i, ac := range argClasses {
		if ac.name != "expref" {
			docParts = append(docParts, fmt.Sprintf(`"f%d":%s`, i, ac.json))
		}
	}
	doc := "{" + strings.Join(docParts, ",") + "}"
	n := 0
	counter := 0
	for _, name := range names {
		for arity := 0; arity <= maxArity; arity++ {
			idx := make([]int, arity)
			for {
				counter++
				if counter%nshards == shard {
					args := make([]string, arity)
					useField := counter%2 == 0
					for i, k := range idx {
						ac := argClasses[k]
						if ac.name == "expref" {
							args[i] = "&@"
						} else if useField {
							args[i] = fmt.Sprintf("f%d", k)
						} else {
							args[i] = lit(ac.json)
						}
					}
					expr := name + "(" + strings.Join(args, ", ") + ")"
					run(t, Case{Property: prop, Kind: "diff", Expr: expr, Doc: doc})
					n++
					if prop != "C10" {
						for i, k := range idx {
							if argClasses[k].name != "expref" {
								if useField {
									args[i] = lit(argClasses[k].json)
								} else {
									args[i] = fmt.Sprintf("f%d", k)
								}
							}
						}
						run(t, Case{Property: prop, Kind: "diff", Expr: name + "(" + strings.Join(args, ", ") + ")", Doc: doc})
						n++
						// mixed: the first argument a literal (it lives in the compiled expression), the others from the document
						if arity >= 2 && argClasses[idx[0]].name != "expref" {
							for i, k := range idx {
								if argClasses[k].name != "expref" {
									if i == 0 {
										args[i] = lit(argClasses[k].json)
									} else {
										args[i] = fmt.Sprintf("f%d", k)
									}
								}
							}
							run(t, Case{Property: prop, Kind: "diff", Expr: name + "(" + strings.Join(args, ", ") + ")", Doc: doc})
							n++
						}
					}
				}
				// next tuple
				p := arity - 1
				for p >= 0 {
					idx[p]++
					if idx[p] < len(argClasses) {
						break
					}
					idx[p] = 0
					p--
				}
				if p < 0 {
					break
				}
			}
		}
	}
	st.mu.Lock()
	st.Exhaustive[prop+".matrix"] = fmt.Sprintf("%d names (26 built-ins + %d unknown) x arity 0..%d x %d argument classes per position (shard %d/%d: %d calls)", len(names), len(unknownNames), maxArity, len(argClasses), shard, nshards, n)
	st.mu.Unlock()
}

// by-expression keys: every combination of key kinds for arrays of length 0..3
var keyKinds = []string{"1", "0", "-1", `"s"`, `""`, "null", "true", "[1]", `{"a":1}`, "ERR"}

func TestC10ByExprKeys(t *testing.T) {
	// also run under C16 (VERIF_PROP): whatever comes back without an error must be JSON data
	byProp := envStr("VERIF_PROP", "C10")
	byKind := "diff"
	if byProp == "C16" {
		byKind = "jsondata"
	} else {
		byProp = "C10"
	}
	n := 0
	for _, fnv := range []string{"sort_by", "max_by", "min_by", "sort_by:sort_by([@, @], &i)[0].k", "sort_by:max_by([@], &i).k", "max_by:map(&k, [@])[0]", "min_by:(sort(`[2,1]`) && k)", "sort_by:min_by(sort_by([@, @], &i), &i).k"} {
		fn, keyExpr := fnv, "k"
		if i := strings.Index(fnv, ":"); i >= 0 {
			// the key expression itself calls functions (state of the outer call while an inner one runs)
			fn, keyExpr = fnv[:i], fnv[i+1:]
		}
		for length := 0; length <= 3; length++ {
			idx := make([]int, length)
			for {
				elems := make([]string, length)
				hasErr := false
				for i, k := range idx {
					if keyKinds[k] == "ERR" {
						hasErr = true
						elems[i] = fmt.Sprintf(`{"k":"x","e":true,"i":%d}`, i)
					} else {
						elems[i] = fmt.Sprintf(`{"k":%s,"i":%d}`, keyKinds[k], i)
					}
				}
				doc := "[" + strings.Join(elems, ",") + "]"
				key := keyExpr
				if hasErr {
					// the key expression fails (abs of a string) exactly on the marked elements
					key = "(e && abs(k)) || " + keyExpr
				}
				run(t, Case{Property: byProp, Kind: byKind, Expr: fn + "(@, &" + key + ")", Doc: doc})
				n++
				p := length - 1
				for p >= 0 {
					idx[p]++
					if idx[p] < len(keyKinds) {
						break
					}
					idx[p] = 0
					p--
				}
				if p < 0 {
					break
				}
			}
		}
	}
	st := statsFor(byProp)
	st.mu.Lock()
	st.Exhaustive[byProp+".byexpr-keys"] = fmt.Sprintf("sort_by/max_by/min_by x arrays of length 0..3 x every combination of key kinds %v: %d calls", keyKinds, n)
	st.mu.Unlock()
}

// TestC10Random: calls (mostly ill-typed) nested inside arbitrary expressions.
func TestC10Random(t *testing.T) {
	rapid.Check(t, func(t *rapid.T) {
		doc := genDoc(t)
		f := fragAll
		f.mismatch = 45
		expr := genExpr(t, doc, f)
		run(t, caseDiff("C10", expr, doc))
	})
}

// typed universe for C09
var c09Numbers = []string{"1e21", "1e-7", "5e-324", "0.23333333333333334", "1.7976931348623157e308", "-1e308", "6.02214076e23", "1e20", "123456789012345680000", "1.2345678901234568e-10", "0", "-0", "1", "-1", "1.5", "-1.5", "2.5", "1e15", "-7", "1e19", "-1e19", "9223372036854775808", "1e21", "1e300", "9007199254740993", "0.1", "1e-7", "123456789.125", "-2.5"}
var c09Strings = []string{`"0x1F"`, `"0o17"`, `"0b101"`, `"0X1f"`, `"-0x10"`, `"1_000"`, `"0x"`, `"017"`, `"null"`, `"true"`, `"[]"`, `"9223372036854775807"`, `"9223372036854775808"`, `"9999999999999999999"`, `"18446744073709551616"`, `"0.23333333333333334"`, `"\ufffdabc"`, `"\u007f"`, `"𝄞"`, `"a\u0301"`, `"ǆ"`, `"a𝄞"`, `"𝄞𝄞𝄞"`, `""`, `"a"`, `"b"`, `"ab"`, `"é"`, `"𝒳y"`, `"10"`, `"1e2"`, `"-0"`, `" 1"`, `"inf"`, `"nan"`, `"Infinity"`, `"0x1p4"`, `"1_0"`, `"é"`, `"aé𝒳"`, `"1.0"`, `"-1.5e-3"`, `"1e999"`, `"+1"`, `".5"`}
var c09NumArrays = []string{"[]", "[1]", "[3,1,2]", "[1,1,1]", "[2,-1,2,0.5]", "[1e15,-1e15,1]", "[0,-0]"}
var c09StrArrays = []string{"[]", `["a"]`, `["b","a","c"]`, `["a","a"]`, `["é","e","z","𝒳","Z"]`, `["","a",""]`, `["ab","a","abc"]`}
var c09ObjArrays = []string{
	"[]", `[{"a":1,"n":"x"}]`, `[{"a":2,"n":"p"},{"a":1,"n":"q"},{"a":2,"n":"r"},{"a":1,"n":"s"}]`,
	`[{"a":"b","n":1},{"a":"a","n":2},{"a":"b","n":3}]`, `[{"a":3,"n":"only-max"},{"a":1,"n":"min1"},{"a":1,"n":"min2"},{"a":3,"n":"max2"}]`,
	`[{"a":1,"b":{"c":[1,2]}},{"a":0,"b":{"c":[]}}]`,
}
var c09MixedArrays = []string{"[]", `[1,"a",null,true,[1],{"a":1}]`, "[[1,2],[3],[]]", "[null,null]", `[[1],[1],[2]]`, `[{"a":1},{"a":1}]`}
var c09Objects = []string{"{}", `{"a":1}`, `{"a":1,"b":2}`, `{"b":3,"c":4}`, `{"a":{"x":1}}`, `{"a":null}`, `{"":0,"é":1}`}
var c09Any = []string{"null", "true", "false", "0", "1.5", "1e19", "-9223372036854775809", "1e-7", "[1e20,-0,0.1]", `{"n":1e300}`, `""`, `"a"`, `"1"`, "[]", "[1]", `[[1]]`, "{}", `{"a":1}`, `{"a":[1,{"b":null}]}`}
var c09Exprefs = []string{"&@", "&a", "&a.b", "&length(@)", "&to_number(@)", "&n", "&[@, length(@)]", "&type(@)", "&b.c[0]", "&to_string(@)", "&@[0]"}

func pool(ts []ref.PType) []string {
	var out []string
	for _, t := range ts {
		switch t {
		case ref.PNumber:
			out = append(out, c09Numbers...)
		case ref.PString:
			out = append(out, c09Strings...)
		case ref.PArray:
			out = append(out, c09NumArrays...)
			out = append(out, c09StrArrays...)
			out = append(out, c09ObjArrays...)
			out = append(out, c09MixedArrays...)
		case ref.PObject:
			out = append(out, c09Objects...)
		case ref.PArrayNumber:
			out = append(out, c09NumArrays...)
		case ref.PArrayString:
			out = append(out, c09StrArrays...)
		case ref.PAny:
			out = append(out, c09Any...)
		case ref.PExpref:
			out = append(out, c09Exprefs...)
		}
	}
	return out
}

// TestC09Universe: every function on every well-typed tuple over the typed universe.
func TestC09Universe(t *testing.T) {
	st := statsFor("C09")
	perFn := map[string]int{}
	total := 0
	for _, name := range ref.FunctionNames {
		sig := ref.Sigs[name]
		arities := []int{len(sig.Params)}
		if sig.Variadic {
			arities = []int{1, 2, 3}
		}
		for _, ar := range arities {
			pools := make([][]string, ar)
			for i := range pools {
				pi := i
				if pi >= len(sig.Params) {
					pi = len(sig.Params) - 1
				}
				pools[i] = pool(sig.Params[pi])
				if ar == 3 && len(pools[i]) > 8 {
					pools[i] = pools[i][:8]
				}
			}
			idx := make([]int, ar)
			for {
				args := make([]string, ar)
				for i, k := range idx {
					a := pools[i][k]
					if strings.HasPrefix(a, "&") {
						args[i] = a
					} else {
						args[i] = lit(a)
					}
				}
				expr := name + "(" + strings.Join(args, ", ") + ")"
				r := run(t, Case{Property: "C09", Kind: "diff", Expr: expr, Doc: "null"})
				if r.Nontrivial {
					perFn[name]++
				}
				total++
				p := ar - 1
				for p >= 0 {
					idx[p]++
					if idx[p] < len(pools[p]) {
						break
					}
					idx[p] = 0
					p--
				}
				if p < 0 {
					break
				}
			}
		}
	}
	for _, name := range ref.FunctionNames {
		st.Class("universe-success."+name, int64(perFn[name]))
		if perFn[name] == 0 {
			t.Fatalf("HARNESS-ERROR: function %s has no successful well-typed case in the universe", name)
		}
	}
	st.mu.Lock()
	st.Exhaustive["C09.typed-universe"] = fmt.Sprintf("26 functions x all tuples over the typed universe (numbers %d, strings %d, arrays %d, objects %d, any %d, exprefs %d): %d calls", len(c09Numbers), len(c09Strings), len(pool([]ref.PType{ref.PArray})), len(c09Objects), len(c09Any), len(c09Exprefs), total)
	st.mu.Unlock()
}

func init() { predicates["tonumber"] = predToNumber }

// predToNumber: to_number(string) is a finite number or null; for strings
// spelled by the JSON number production it is exactly that number.
func predToNumber(c Case) (r Result) {
	s := c.Extra["s"].(string)
	r.Nontrivial = true
	o := libSearch("to_number(@)", s)
	if o.Panic != nil || o.Err != nil {
		r.Violation = "to_number of a string failed"
		r.Got = showOut(o)
		return
	}
	switch v := o.Val.(type) {
	case nil:
		r.class("tonumber.null")
		if ref.IsJSONNumber(s) {
			if f, err := strconv.ParseFloat(s, 64); err == nil && f == f && f <= 1.7976931348623157e308 && f >= -1.7976931348623157e308 {
				r.Violation = "to_number of a JSON number string must be that number"
				r.Expected, r.Got = fmt.Sprint(f), "null"
			}
		}
	case float64:
		r.class("tonumber.number")
		if !isJSONData(v) {
			r.Violation = "to_number returned a non-finite number"
			r.Got = fmt.Sprint(v)
			return
		}
		if ref.IsJSONNumber(s) {
			if f, _ := strconv.ParseFloat(s, 64); f != v {
				r.Violation = "to_number of a JSON number string returned a different number"
				r.Expected, r.Got = fmt.Sprint(f), fmt.Sprint(v)
			}
		} else if ref.ClearlyNotNumeric(s) {
			r.Violation = "to_number of a non-numeric string must be null"
			r.Expected, r.Got = "null", fmt.Sprint(v)
		}
	default:
		r.Violation = "to_number returned neither a number nor null"
		r.Got = show(o.Val)
	}
	return
}

var numberishRunes = []rune("0123456789+-.eExXpP_infINFatyNn ")

// TestC09ToNumber: strings built from number-ish characters.
func TestC09ToNumber(t *testing.T) {
	for _, s := range []string{"inf", "+inf", "-inf", "Inf", "INF", "infinity", "-Infinity", "nan", "NaN", "+nan", "1e309", "-1e309", "1e-400", "0x1p1024", "0X1P-2", "1_000", "١٢", "１２", " 12", "12 ", "1e", "e1", "--1", "", "0", "-0", "1.5", "1E2",
		// texts that are JSON values but not numbers (a JSON decoder used as number parser accepts some of them)
		"null", "true", "false", "[]", "{}", "\"\"", "\"x\"", " null", "null ", "Null", "nil", "-", "+", ".", "e", "--", "\n", "\tnull",
		"9223372036854775807", "9223372036854775808", "9999999999999999999", "-9223372036854775808", "-9223372036854775809", "18446744073709551615", "18446744073709551616", "9007199254740993", "0.23333333333333334", "1.4000000000000001",
		"123456789012345678", "1234567890123456789", "12345678901234567890", "123456789012345678901", "99999999999999999999999", "0.000000000000000000000000000001", "1.7976931348623157e308", "1.7976931348623159e308", "4.9e-324", "2e-324", "1e-400", "-1e-400", "00", "01", "1.", ".5", "-.5", "+1", "1e+2", "1E-2", "0e0", "-0e0", "0.0", "-0.0"} {
		run(t, Case{Property: "C09", Kind: "tonumber", Extra: map[string]interface{}{"s": s}})
	}
	rapid.Check(t, func(t *rapid.T) {
		s := rapid.StringOfN(rapid.RuneFrom(numberishRunes), 0, 12, -1).Draw(t, "s")
		if uni(t, 3, "structured") == 0 {
			// a well-formed number of any length: 1..25 integer digits (2^53, 2^63, 2^64 lie at 16..20), optional fraction and exponent
			digits := func(n int, label string) string {
				var sb strings.Builder
				for i := 0; i < n; i++ {
					sb.WriteByte("0123456789"[uni(t, 10, label)])
				}
				return sb.String()
			}
			s = []string{"", "-", "", ""}[uni(t, 4, "sign")] + []string{"", "9", "1", "92233720368547758", "1844674407370955161", "900719925474099"}[uni(t, 6, "prefix")] + digits(1+uni(t, 8, "intLen"), "d")
			if uni(t, 3, "frac") == 0 {
				s += "." + digits(1+uni(t, 20, "fracLen"), "f")
			}
			if uni(t, 4, "exp") == 0 {
				s += []string{"e", "E", "e+", "e-", "E-"}[uni(t, 5, "e")] + digits(1+uni(t, 3, "expLen"), "x")
			}
		}
		run(t, Case{Property: "C09", Kind: "tonumber", Extra: map[string]interface{}{"s": s}})
	})
}

// TestC09Random: functions nested in arbitrary expressions, larger arrays with ties.
func TestC09Random(t *testing.T) {
	rapid.Check(t, func(t *rapid.T) {
		var doc interface{}
		if rapid.IntRange(0, 3).Draw(t, "bigDoc") == 0 {
			// a large array of objects with many key ties (stability) and multi-byte strings
			n := rapid.IntRange(2, 120).Draw(t, "n")
			arr := make([]interface{}, n)
			for i := range arr {
				arr[i] = map[string]interface{}{
					"a": float64(rapid.IntRange(0, 4).Draw(t, "ka")),
					"b": rapid.SampledFrom([]string{"x", "y", "é", "𝒳", ""}).Draw(t, "kb"),
					"i": float64(i),
				}
			}
			nums := make([]interface{}, rapid.IntRange(0, 60).Draw(t, "m"))
			for i := range nums {
				nums[i] = float64(rapid.IntRange(-5, 5).Draw(t, "num"))
			}
			doc = map[string]interface{}{"a": arr, "b": nums, "c": rapid.SampledFrom(docStrings).Draw(t, "c")}
		} else {
			doc = genDoc(t)
		}
		f := fragAll
		f.mismatch = 6
		g := &exprGen{t: t, f: f}
		var lex []string
		if rapid.IntRange(0, 2).Draw(t, "direct") == 0 {
			lex = g.call(doc, 0)
		} else {
			lex = g.expr(doc, 0)
		}
		run(t, caseDiff("C09", renderRandom(t, lex), doc))
	})
}

// TestC09Large: array functions on large arrays (up to 300 elements) with many
// ties, number and string keys, multi-byte strings: stability of sort_by, first
// extremal element of max_by/min_by, sort/max/min/sum/avg/reverse/join/map.
func TestC09Large(t *testing.T) {
	rapid.Check(t, func(t *rapid.T) {
		n := rapid.IntRange(0, 300).Draw(t, "n")
		if rapid.IntRange(0, 3).Draw(t, "small") == 0 {
			n = rapid.IntRange(0, 16).Draw(t, "nSmall")
		}
		nk := rapid.IntRange(1, 6).Draw(t, "distinctKeys")
		strs := []string{"b", "a", "é", "𝒳", "", "ab", "B", "z", "aa"}
		objs := make([]interface{}, n)
		nums := make([]interface{}, n)
		ss := make([]interface{}, n)
		for i := range objs {
			k := rapid.IntRange(0, nk-1).Draw(t, "k")
			objs[i] = map[string]interface{}{"n": float64(k), "s": strs[k%len(strs)], "i": float64(i), "neg": float64(-k), "f": float64(k) + 0.5}
			nums[i] = float64(rapid.IntRange(-nk, nk).Draw(t, "num"))
			ss[i] = strs[rapid.IntRange(0, len(strs)-1).Draw(t, "str")]
		}
		doc := map[string]interface{}{"o": objs, "n": nums, "s": ss}
		exprs := []string{
			"sort_by(o, &n)[*].i", "sort_by(o, &s)[*].i", "sort_by(o, &neg)[*].i", "sort_by(o, &to_string(n))[*].i", "sort_by(o, &f)[*].i",
			"max_by(o, &n).i", "max_by(o, &s).i", "min_by(o, &n).i", "min_by(o, &s).i", "max_by(o, &neg).i", "min_by(o, &length(s)).i",
			"sort(n)", "sort(s)", "max(n)", "min(n)", "max(s)", "min(s)", "sum(n)", "avg(n)", "reverse(o)[*].i", "reverse(s)", "join('|', s)", "map(&i, o)",
			"length(o)", "o[*].s | sort(@)", "sort_by(o, &s) | reverse(@) | [0].i", "sort_by(sort_by(o, &s), &n)[*].i", "sort_by(o[?n > `0`], &s)[*].i", "o[::-1] | sort_by(@, &s)[*].i",
			"contains(n, `0`)", "contains(s, 'é')", "to_array(n) | length(@)", "not_null(n)[0]", "n[?@ == `0`] | length(@)",
		}
		e := exprs[rapid.IntRange(0, len(exprs)-1).Draw(t, "expr")]
		run(t, Case{Property: "C09", Kind: "diff", Expr: e, Doc: ref.Canon(doc)})
	})
}

// ---------------------------------------------------------------------------
// C11

func init() { predicates["strict"] = predStrict }

// erroring seeds (document independent) and their classes
var errSeeds = []struct{ class, expr string }{
	{"invalid-type", "abs(`\"a\"`)"},
	{"invalid-arity-0", "abs()"},
	{"invalid-arity-2", "abs(`1`, `2`)"},
	{"unknown-function", "nosuch(@)"},
	{"zero-step", "`[1,2]`[::0]"},
	{"zero-step-empty", "`[]`[1:2:0]"},
	{"zero-step-neg", "`[1]`[::-0]"},
	{"zero-step-padded", "`[1,2]`[::0000000000000000000]"},
	{"zero-step-padded-neg", "`[1,2]`[1::-00000000000000000000]"},
	{"inconsistent-key", "sort_by(`[1,\"a\"]`, &@)"},
	{"bad-key", "max_by(`[[1]]`, &@)"},
	{"inconsistent-key-nested-call", "sort_by(`[{\"k\":1,\"i\":0},{\"k\":\"a\",\"i\":1},{\"k\":2,\"i\":2}]`, &sort_by([@, @], &i)[0].k)"},
	{"inconsistent-key-nested-call-last", "max_by(`[{\"k\":1,\"i\":0},{\"k\":2,\"i\":1},{\"k\":\"a\",\"i\":2}]`, &max_by([@], &i).k)"},
	{"variadic-type", "merge(`{}`, `1`)"},
	{"expref-as-value", "to_string(&@)"},
	{"nested", "length(abs(`\"a\"`))"},
	// strings that spell numbers are strings
	{"numeric-string", "abs(`\"1\"`)"},
	{"numeric-string-array", "sum(`[\"1\",\"2\"]`)"},
	{"numeric-string-mixed", "max(`[1,\"2\",3]`)"},
	{"numeric-string-avg", "avg(`[\"1e3\"]`)"},
	{"numeric-string-sort", "sort(`[1,\"2\"]`)"},
	{"numeric-string-nan", "sum(`[\"NaN\",1]`)"},
	{"numeric-string-ceil", "ceil(`\"1.5\"`)"},
	// and numbers are not strings
	{"number-as-string", "join(`\",\"`, `[1,2]`)"},
	{"number-as-string-arg", "starts_with(`12`, `\"1\"`)"},
	{"bool-as-number", "sum(`[true,1]`)"},
	{"null-in-array", "max(`[null,1]`)"},
}

// strict context constructors: the hole (%s) is always evaluated.
var strictCtx = []struct{ name, tmpl string }{ // contexts named in rebinding (below) evaluate the hole against another current node
	{"sub", "%s.k"}, {"index", "%s[0]"}, {"slice", "%s[1:]"}, {"list-proj", "%s[*]"}, {"flatten", "%s[]"}, {"filter", "%s[?@]"},
	{"value-proj", "%s.*"}, {"pipe-left", "%s | @"}, {"pipe-right", "@ | %s"}, {"or-left", "%s || `1`"}, {"and-left", "%s && `1`"},
	{"or-right", "`false` || %s"}, {"and-right", "`true` && %s"}, {"not", "!%s"}, {"cmp-left", "%s == `1`"}, {"cmp-right", "`1` < %s"},
	{"list-member", "[`1`, %s, `2`]"}, {"hash-member", "{k: %s}"}, {"paren", "(%s)"},
	// a repeated key: which value the key ends up with is unspecified, but every member is evaluated
	{"hash-dup-first", "{k: %s, k: `1`}"}, {"hash-dup-last", "{k: `1`, k: %s}"}, {"hash-dup-quoted", "{\"k\": %s, j: `2`, k: `1`}"},
	{"arg-abs", "abs(%s)"}, {"arg-not_null-2", "not_null(`1`, %s)"}, {"arg-contains-2", "contains(`[1]`, %s)"}, {"arg-merge-2", "merge(`{}`, %s)"},
	{"arg-join-1", "join(%s, `[\"a\"]`)"}, {"arg-to_array", "to_array(%s)"}, {"arg-type", "type(%s)"}, {"arg-length", "length(%s)"},
	{"map-body", "map(&%s, `[1,2]`)"}, {"sort_by-key", "sort_by(`[1,2]`, &%s)"}, {"max_by-key", "max_by(`[1,2]`, &%s)"}, {"min_by-key1", "min_by(`[1]`, &%s)"},
	{"proj-rhs-arg", "`[1,2]`[*].not_null(%s)"}, {"filter-cond", "`[1,2]`[?%s]"}, {"flatten-rhs-arg", "`[[1],[2]]`[].not_null(%s)"},
	{"vproj-rhs-arg", "`{\"a\":1,\"b\":2}`.*.not_null(%s)"}, {"slice-rhs-arg", "`[1,2,3]`[1:].not_null(%s)"}, {"filter-rhs-arg", "`[1,2]`[?@].not_null(%s)"},
	{"sub-rhs-list", "@.[%s]"}, {"sub-rhs-hash", "`1`.{a: %s}"}, {"expref-pipe", "map(&(@ | %s), `[0]`)"},
}

// non-strict controls: the hole is legitimately not evaluated.
var laxCtx = []struct{ name, tmpl string }{
	{"or-short", "`1` || %s"}, {"and-short", "`false` && %s"}, {"proj-empty", "`[]`[*].not_null(%s)"}, {"map-empty", "map(&%s, `[]`)"},
	{"proj-nonarray", "`1`[*].not_null(%s)"}, {"filter-empty", "`[]`[?%s]"}, {"vproj-nonobject", "`[1]`.*.not_null(%s)"}, {"sort_by-empty", "sort_by(`[]`, &%s)"},
	{"list-on-null", "`null`.[%s]"}, {"hash-on-null", "`null`.{a: %s}"}, {"filter-nonarray", "`{}`[?%s]"},
}

// predStrict: Extra = {seed, strict(bool)}; Expr = C[seed].
func predStrict(c Case) (r Result) {
	seed := c.Extra["seed"].(string)
	strict := c.Extra["strict"] == true
	doc := mustJSON(c.Doc)
	so := libSearch(seed, ref.DeepCopy(doc))
	if so.Panic != nil {
		r.Violation = "seed panicked"
		r.Got = showOut(so)
		return
	}
	// the differential verdict on the whole expression
	dr := predDiff(Case{Property: "C11", Kind: "diff", Expr: c.Expr, Doc: c.Doc})
	r.Classes = dr.Classes
	if dr.Discard != "" {
		r.Discard = dr.Discard
		return
	}
	if dr.Violation != "" {
		r = dr
		return
	}
	if so.Err == nil {
		r.Discard = "seed-does-not-error"
		return
	}
	for _, cl := range dr.Classes {
		if cl == "result.error" {
			// the reference model says the seed's error must surface (and the library agreed)
			r.Nontrivial = true
		}
	}
	if strict {
		r.Nontrivial = true
		o := libSearch(c.Expr, ref.DeepCopy(doc))
		if o.Panic != nil || o.Err == nil {
			r.Violation = "an error raised by an evaluated sub-expression was swallowed by its context"
			r.Expected, r.Got = "error (sub-expression "+seed+" fails with: "+so.Err.Error()+")", showOut(o)
			return
		}
		if o.Val != nil {
			r.Violation = "Search returned a value together with the error"
			r.Got = show(o.Val)
		}
	}
	return
}

var rebinding = map[string]bool{"map-body": true, "sort_by-key": true, "max_by-key": true, "min_by-key1": true, "proj-rhs-arg": true, "filter-cond": true,
	"flatten-rhs-arg": true, "vproj-rhs-arg": true, "slice-rhs-arg": true, "filter-rhs-arg": true, "sub-rhs-hash": true, "expref-pipe": true}

// multi-select contexts evaluate their members only on a non-null current node
var needsNonNull = map[string]bool{"list-member": true, "hash-member": true, "sub-rhs-list": true, "hash-dup-first": true, "hash-dup-last": true, "hash-dup-quoted": true}

func isFixedSeed(s string) bool {
	for _, f := range errSeeds {
		if f.expr == s {
			return true
		}
	}
	return false
}

func fill(tmpl, hole string) string { return strings.Replace(tmpl, "%s", hole, 1) }

// TestC11Exhaustive: every seed in every single context and every pair of contexts.
func TestC11Exhaustive(t *testing.T) {
	pairs := envInt("VERIF_C11_PAIRS", 0) == 1
	shard, nshards := envInt("VERIF_SHARD", 0), envInt("VERIF_NSHARDS", 1)
	n := 0
	k := 0
	for _, s := range errSeeds {
		for _, c1 := range strictCtx {
			k++
			if k%nshards != shard {
				continue
			}
			e := fill(c1.tmpl, s.expr)
			r := run(t, Case{Property: "C11", Kind: "strict", Expr: e, Doc: `{"k":1}`, Extra: map[string]interface{}{"seed": s.expr, "strict": true}})
			_ = r
			statsFor("C11").Class("ctx."+c1.name, 1)
			statsFor("C11").Class("seed."+s.class, 1)
			n++
			if pairs {
				for _, c2 := range strictCtx {
					e2 := fill(c2.tmpl, "("+e+")")
					if strings.Contains(c2.tmpl, "&%s") || strings.Contains(c2.tmpl, "(%s)") || strings.Contains(c2.tmpl, ", %s") || strings.Contains(c2.tmpl, "[?%s]") || strings.Contains(c2.tmpl, "[%s]") || strings.Contains(c2.tmpl, ": %s") {
						e2 = fill(c2.tmpl, e)
					}
					run(t, Case{Property: "C11", Kind: "strict", Expr: e2, Doc: `{"k":1}`, Extra: map[string]interface{}{"seed": s.expr, "strict": true}})
					n++
				}
			}
		}
		// every binary operator with a left (and right) operand of every type: whether the
		// seed on the other side must be evaluated is decided by the reference model
		for _, x := range universeC07 {
			for _, op := range binOpsC07 {
				k++
				if k%nshards != shard {
					continue
				}
				for _, e := range []string{lit(x) + " " + op + " " + s.expr, s.expr + " " + op + " " + lit(x), "[?" + lit(x) + " " + op + " " + s.expr + "]", "f " + op + " " + s.expr} {
					run(t, Case{Property: "C11", Kind: "strict", Expr: e, Doc: `[{"k":1,"f":` + x + `}]`, Extra: map[string]interface{}{"seed": s.expr, "strict": false}})
					n++
				}
				run(t, Case{Property: "C11", Kind: "strict", Expr: "[0].f " + op + " " + s.expr, Doc: `[{"k":1,"f":` + x + `}]`, Extra: map[string]interface{}{"seed": s.expr, "strict": false}})
				n++
			}
		}
		for _, c1 := range laxCtx {
			e := fill(c1.tmpl, s.expr)
			run(t, Case{Property: "C11", Kind: "strict", Expr: e, Doc: `{"k":1}`, Extra: map[string]interface{}{"seed": s.expr, "strict": false}})
			statsFor("C11").Class("laxctx."+c1.name, 1)
			n++
		}
	}
	st := statsFor("C11")
	st.mu.Lock()
	st.Exhaustive["C11.contexts"] = fmt.Sprintf("%d erroring seeds x %d strict contexts (pairs=%v) + %d non-strict controls (shard %d/%d: %d cases)", len(errSeeds), len(strictCtx), pairs, len(laxCtx), shard, nshards, n)
	st.mu.Unlock()
}

// TestC11Random: random stacks of strict contexts (depth 1..6) around seeds,
// including document-dependent seeds.
func TestC11Random(t *testing.T) {
	rapid.Check(t, func(t *rapid.T) {
		doc := genDoc(t)
		var seed string
		if rapid.IntRange(0, 3).Draw(t, "docSeed") == 0 {
			// a document-dependent seed: a function applied to whatever the document holds
			g := &exprGen{t: t, f: fragAll}
			g.f.mismatch = 60
			seed = ref.RenderSpaced(g.call(doc, 3))
		} else {
			seed = errSeeds[rapid.IntRange(0, len(errSeeds)-1).Draw(t, "seed")].expr
		}
		docSeed := !isFixedSeed(seed)
		depth := rapid.IntRange(1, 6).Draw(t, "depth")
		e := seed
		strict := true
		var stack []string // innermost first
		for i := 0; i < depth; i++ {
			if rapid.IntRange(0, 9).Draw(t, "lax") == 0 {
				c := laxCtx[rapid.IntRange(0, len(laxCtx)-1).Draw(t, "laxCtx")]
				e = fill(c.tmpl, "("+e+")")
				strict = false
				stack = append(stack, "lax")
				continue
			}
			c := strictCtx[rapid.IntRange(0, len(strictCtx)-1).Draw(t, "ctx")]
			e = fill(c.tmpl, "("+e+")")
			stack = append(stack, c.name)
			statsFor("C11").Class("ctx."+c.name, 1)
		}
		// The stack guarantees evaluation of the seed only if (a) a multi-select is
		// never applied to a null current node (it then yields null without
		// evaluating its members) and (b) a document-dependent seed, observed to
		// fail on the root document, is still evaluated against the root document.
		curIsRoot, curNonNull := true, doc != nil
		for i := len(stack) - 1; i >= 0; i-- {
			name := stack[i]
			if needsNonNull[name] && !curNonNull {
				strict = false
			}
			if rebinding[name] {
				curIsRoot, curNonNull = false, true
			}
		}
		if docSeed && !curIsRoot {
			strict = false
		}
		run(t, Case{Property: "C11", Kind: "strict", Expr: e, Doc: ref.Canon(doc), Extra: map[string]interface{}{"seed": seed, "strict": strict}})
	})
}

// TestC08Pairs: two (or three) slices evaluated by one interpreter in one
// expression - side by side, nested, piped - so that state leaking from one slice
// evaluation into the next (defaults of omitted parts) is visible.
func TestC08Pairs(t *testing.T) {
	rapid.Check(t, func(t *rapid.T) {
		n := rapid.IntRange(0, 9).Draw(t, "len")
		part := func(label string) string {
			switch uni(t, 4, label+"Kind") {
			case 0:
				return ""
			default:
				return strconv.Itoa(rapid.IntRange(-n-2, n+2).Draw(t, label))
			}
		}
		sl := func(label string) string {
			a, b, c := part(label+"a"), part(label+"b"), part(label+"c")
			if c == "0" {
				c = "2"
			}
			if c == "" && uni(t, 2, label+"colon") == 0 {
				return "[" + a + ":" + b + "]"
			}
			return "[" + a + ":" + b + ":" + c + "]"
		}
		s1, s2, s3 := sl("s1"), sl("s2"), sl("s3")
		forms := []string{
			"[@" + s1 + ", @" + s2 + "]", "{x: @" + s1 + ", y: @" + s2 + ", z: @" + s3 + "}", "@" + s1 + " | @" + s2, "@" + s1 + s2,
			"nest" + s1 + "[*]" + s2, "[@" + s1 + ", nest" + s2 + "[0]" + s3 + "]", "@" + s1 + ".[@, `[1,2,3,4,5]`" + s2 + "]", "nest[*]" + s1 + " | [0]" + s2,
			"[?@" + s1 + "] | @" + s2, "`[0,1,2,3,4,5,6]`" + s1 + " || @" + s2,
		}
		e := forms[uni(t, len(forms), "form")]
		arr := mustJSON(markerArray(n)).([]interface{})
		nest := make([]interface{}, n)
		for i := range nest {
			nest[i] = ref.DeepCopy(arr)
		}
		var doc interface{} = arr
		if strings.Contains(e, "nest") {
			doc = map[string]interface{}{"nest": nest}
			e = strings.Replace(e, "@[", "nest[0][", -1)
		}
		run(t, Case{Property: "C08", Kind: "diff", Expr: e, Doc: ref.Canon(doc), Extra: map[string]interface{}{"cell": "pairs"}})
	})
}

// TestC10LargeKeys: by-expression functions on arrays of 22..61 elements with exactly
// one invalid (or erroring) key at every position, for several key orderings: the
// call must fail wherever the bad element sits (merge-sort blocks, comparator sides).
func TestC10LargeKeys(t *testing.T) { largeKeys(t, "C10", []string{`"x"`, "null", "ERR"}) }

// TestC11LargeKeys: the same grid with an erroring key expression only: an error
// raised inside a sort comparator / extremum scan must surface wherever it occurs.
func TestC11LargeKeys(t *testing.T) { largeKeys(t, "C11", []string{"ERR", "ERR2"}) }

func largeKeys(t *testing.T, prop string, bads []string) {
	n := 0
	for _, size := range []int{22, 41, 61} {
		for pos := 0; pos < size; pos++ {
			for pat := 0; pat < 4; pat++ {
				for bi, bad := range bads {
					if (pos+pat+bi)%2 == 1 && size > 22 {
						continue
					}
					// string keys in half of the cells (the bad key is then a number or null)
					strKeys := (pos+bi)%2 == 0
					if strKeys && bad == `"x"` {
						bad = "7"
					}
					elems := make([]string, size)
					for i := range elems {
						var k int
						switch pat {
						case 0:
							k = i
						case 1:
							k = size - i
						case 2: // descending blocks of 20: every key of a block larger than every key of the next
							k = (size/20+1-i/20)*100 + i%20
						default:
							k = (i * 7) % 5
						}
						if i == pos {
							if bad == "ERR" || bad == "ERR2" {
								elems[i] = fmt.Sprintf(`{"k":"s","e":true,"i":%d}`, i)
							} else {
								elems[i] = fmt.Sprintf(`{"k":%s,"i":%d}`, bad, i)
							}
						} else if strKeys {
							elems[i] = fmt.Sprintf(`{"k":"s%05d","i":%d}`, k, i)
						} else {
							elems[i] = fmt.Sprintf(`{"k":%d,"i":%d}`, k, i)
						}
					}
					key := "k"
					if bad == "ERR" {
						key = "(e && abs(k)) || k"
					} else if bad == "ERR2" {
						key = "(e && nosuch(@)) || k"
					}
					for _, fn := range []string{"sort_by", "max_by", "min_by"} {
						run(t, Case{Property: prop, Kind: "diff", Expr: fn + "(@, &" + key + ")", Doc: "[" + strings.Join(elems, ",") + "]", Extra: map[string]interface{}{"cell": "largekeys"}})
						n++
					}
				}
			}
		}
	}
	st := statsFor(prop)
	st.mu.Lock()
	st.Exhaustive[prop+".large-keys"] = fmt.Sprintf("sort_by/max_by/min_by on arrays of 22, 41 and 61 elements with one invalid/erroring key at every position x 4 key orderings: %d calls", n)
	st.mu.Unlock()
}

// TestC11Positions: exactly one element on which the right-hand side (or key, or condition)
// fails, at every position of arrays of 1..6, 17 and 33 elements, under every construct that
// evaluates something once per element: the error must surface wherever the element stands
// (not only when it is the first or the last one).
func TestC11Positions(t *testing.T) {
	tmpls := []string{"[*].abs(@)", "[].abs(@)", "[0:].abs(@)", "[::-1].abs(@)", "[?@ == @].abs(@)", "[?abs(@) >= `0`]", "map(&abs(@), @)", "[*].[abs(@)]", "[*].{a: abs(@)}", "[*].not_null(abs(@))",
		"sort_by(@, &abs(@))", "max_by(@, &abs(@))", "min_by(@, &abs(@))", "[*].abs(@) | [0]", "length([*].abs(@))", "[*].abs(@)[0]", "@[*].abs(@) || `1`", "[[*].abs(@), `1`]", "{a: [*].abs(@)}", "sum(@)", "avg(@)", "max(@)", "min(@)", "sort(@)",
		"[*].[@][].abs(@)", "[*].[@, @][*].abs(@)", "[*].{k: @}.*.abs(@)", "[*].[@][?abs(@) > `0`]", "[?@ != `-5`] | [*].abs(@)", "reverse(@)[*].abs(@)", "[*].(abs(@) && `1`)", "[*].(@ | abs(@))", "map(&[abs(@)], @)", "map(&map(&abs(@), [@]), @)"}
	n := 0
	for _, size := range []int{1, 2, 3, 4, 5, 6, 17, 33} {
		for p := 0; p < size; p++ {
			if size > 6 && p != 0 && p != 1 && p != size/2 && p != size-2 && p != size-1 {
				continue
			}
			elems := make([]string, size)
			for i := range elems {
				elems[i] = strconv.Itoa((i*7)%11 - 3)
			}
			// a string, then null (which constructs that drop nulls may drop too early) as the element that fails
			for _, bad := range []string{`"x"`, "null"} {
				elems[p] = bad
				doc := "[" + strings.Join(elems, ",") + "]"
				for _, e := range tmpls {
					run(t, Case{Property: "C11", Kind: "diff", Expr: e, Doc: doc, Extra: map[string]interface{}{"cell": "position"}})
					n++
				}
			}
		}
	}
	st := statsFor("C11")
	st.mu.Lock()
	st.Exhaustive["C11.positions"] = fmt.Sprintf("%d per-element constructs x arrays of 1..6, 17, 33 numbers with one string at every position (edges and middle for the large ones): %d cases, the error must surface in each", len(tmpls), n)
	st.mu.Unlock()
}

// TestC11Triples: every ordered triple of the truth-value and iteration contexts around
// three erroring seeds (errors that only get lost three constructs deep: a negation as the
// left operand of || inside a filter condition, a flatten right after a projection ...).
func TestC11Triples(t *testing.T) {
	pick := map[string]bool{"not": true, "or-left": true, "and-left": true, "or-right": true, "and-right": true, "paren": true, "cmp-left": true, "filter-cond": true, "proj-rhs-arg": true,
		"map-body": true, "list-member": true, "pipe-right": true, "flatten": true, "list-proj": true, "filter": true, "sub": true, "arg-not_null-2": true, "sort_by-key": true}
	var ctxs []struct{ name, tmpl string }
	for _, c := range strictCtx {
		if pick[c.name] {
			ctxs = append(ctxs, c)
		}
	}
	seeds := []string{"abs(`\"a\"`)", "nosuch(@)", "`[1,2]`[::0]"}
	shard, nshards := envInt("VERIF_SHARD", 0), envInt("VERIF_NSHARDS", 1)
	n, k := 0, 0
	wrap := func(tmpl, inner string) string {
		if strings.Contains(tmpl, "&%s") || strings.Contains(tmpl, "(%s)") || strings.Contains(tmpl, ", %s") || strings.Contains(tmpl, "[?%s]") || strings.Contains(tmpl, "[%s]") || strings.Contains(tmpl, ": %s") {
			return fill(tmpl, inner)
		}
		return fill(tmpl, "("+inner+")")
	}
	for _, s := range seeds {
		for _, c1 := range ctxs {
			for _, c2 := range ctxs {
				for _, c3 := range ctxs {
					k++
					if k%nshards != shard {
						continue
					}
					e := wrap(c3.tmpl, wrap(c2.tmpl, fill(c1.tmpl, s)))
					run(t, Case{Property: "C11", Kind: "strict", Expr: e, Doc: `{"k":1}`, Extra: map[string]interface{}{"seed": s, "strict": false}})
					n++
				}
			}
		}
	}
	st := statsFor("C11")
	st.mu.Lock()
	st.Exhaustive["C11.triples"] = fmt.Sprintf("%d^3 ordered triples of truth-value/iteration contexts x %d seeds (shard %d/%d: %d expressions), judged by the reference model", len(ctxs), len(seeds), shard, nshards, n)
	st.mu.Unlock()
}

package harness

// Systematic shape grids: every combination of a left-hand side, one or two
// projection operators, a right-hand side (null-preserving or not) and a
// terminator, over a set of documents with empty, heterogeneous, null-containing
// and nested containers. Complements the random generators of C01/C02 so that
// no projection kind x right-hand-side kind is left to chance.

import (
	"fmt"
	"testing"
)

var shapeDocs = []string{
	`{"a":[{"k":1,"j":[1,2]},{"k":null,"j":[]},null,{"j":[[3],4]},"s",[5,[6]],{"k":{"j":7}}],"o":{"x":1,"y":null,"z":{"k":2,"j":[8]},"w":[9,null]},"e":[],"eo":{},"n":null,"s":"str","t":true,"m":[[1,2],[3,[4]],[],null,{"k":5}]}`,
	`[{"k":1},{"k":null},null,[{"k":2}],[],"x",0,false,{"j":[1]}]`,
	`{"x":null,"y":null}`,
	`{"x":{"k":1},"y":{"k":2},"z":3}`,
	`[[1,[2]],[[3]],4,[],[null]]`,
	`[]`, `{}`, `null`, `"str"`, `0`,
	`{"a":{"k":[{"k":1},{"k":[2,3]}],"j":{"k":{"k":null}}},"o":[{"x":[{"k":1},{"k":2}]},{"x":[]},{"x":null}]}`,
}

var shapeLHS = []string{"", "a", "o", "e", "eo", "n", "s", "m", "a[0].j", "o.z", "@", "`[[1,null],[2]]`", "`{\"p\":null,\"q\":1}`", "not_null(n, a)", "values(o)", "o.w"}
var shapeOps = []string{"[*]", ".*", "[]", "[?@]", "[?k]", "[?k == `1`]", "[1:]", "[::-1]", "[:1]", "[*][*]", "[][]", ".*.*", "[*].*", ".*[*]", "[].*", "[?@][]", "[*][0]", "[0][*]", "[?j[]]", "[?j[*]]"}
var shapeRHS = []string{"", ".k", ".k.j", ".j[0]", "[0]", ".type(@)", ".to_string(@)", ".not_null(@, `1`)", ".[@]", ".{v: @}", ".length(to_array(@))", ".k[*]", ".j[]", ".*", ".j[?@ > `1`]", ".[k, j]", ".not_null(k, j)", ".type(k)", ".[j[]]", ".{x: j[], y: k}", ".[j[*], k]", ".not_null(j[], k)", ".[j[?@]]", ".[*.k]", ".[j[1:]]"}
var shapeEnd = []string{"", " | [0]", " | length(@)", " || `\"alt\"`", "[0]", ".k", " | [?@]"}

func TestC02Shapes(t *testing.T) {
	shard, nshards := envInt("VERIF_SHARD", 0), envInt("VERIF_NSHARDS", 1)
	n, k := 0, 0
	for di, d := range shapeDocs {
		for _, l := range shapeLHS {
			for _, op := range shapeOps {
				if l == "" && op[0] == '.' {
					op = op[1:] // "*" at the start of an expression
				}
				for _, r := range shapeRHS {
					for ei, e := range shapeEnd {
						k++
						if k%nshards != shard {
							continue
						}
						// thin out: full grid on the first document, a diagonal on the others
						if di > 0 && (k+ei)%5 != 0 {
							continue
						}
						expr := l + op + r + e
						if e == "[0]" || e == ".k" {
							expr = "(" + l + op + r + ")" + e
						}
						run(t, Case{Property: "C02", Kind: "diff", Expr: expr, Doc: d})
						n++
					}
				}
			}
		}
	}
	st := statsFor("C02")
	st.mu.Lock()
	st.Exhaustive["C02.shape-grid"] = fmt.Sprintf("%d left-hand sides x %d projection operator chains x %d right-hand sides x %d terminators on %d documents (full grid on the first, every 5th cell on the others; shard %d/%d: %d expressions)", len(shapeLHS), len(shapeOps), len(shapeRHS), len(shapeEnd), len(shapeDocs), shard, nshards, n)
	st.mu.Unlock()
}

// pipe right-hand sides for the C15 shape grid
var shapePipeRHS = []string{"[0]", "[-1]", "[1]", "length(@)", "[?@]", "[0].k", "type(@)", "[::-1]", "@", "to_array(@)", "[*]", "[]", "[*].k", "not_null(@, `1`)", "[0] || `\"d\"`", "[?k].j", "keys(@)", "[:1]", "*", "[@, @[0]]",
	// a second projection whose right-hand side is null-sensitive only at its end (what fusing the two stages would get wrong)
	"[*].k.type(@)", "[*].k.j", "[*].j[0].type(@)", "[*].not_null(k, `0`)", "[*].k.not_null(@, `0`)", "[*].[k]", "[].k.to_string(@)", "[?@].k.type(@)", "[1:].k.type(@)", "*.k.type(@)", "[*].k.abs(@)", "[*].k.{t: type(@)}", "[*].(k || 'd')"}

// TestC15Shapes: every shape-grid expression A piped into every short B:
// Search('(A) | (B)', d) == Search(B, Search(A, d)).
func TestC15Shapes(t *testing.T) {
	shard, nshards := envInt("VERIF_SHARD", 0), envInt("VERIF_NSHARDS", 1)
	n, k := 0, 0
	for di, d := range shapeDocs {
		for _, l := range shapeLHS {
			for _, op := range shapeOps {
				if l == "" && op[0] == '.' {
					op = op[1:]
				}
				for ri, r := range shapeRHS {
					for bi, b := range shapePipeRHS {
						k++
						if k%nshards != shard {
							continue
						}
						if di > 0 && (k+ri+bi)%7 != 0 {
							continue
						}
						if di == 0 && (ri+bi)%2 != 0 {
							continue
						}
						run(t, Case{Property: "C15", Kind: "pipe", Expr: l + op + r, Doc: d, Extra: map[string]interface{}{"b": b}})
						n++
					}
				}
			}
		}
	}
	st := statsFor("C15")
	st.mu.Lock()
	st.Exhaustive["C15.shape-grid"] = fmt.Sprintf("shape-grid expressions A (%d x %d x %d) piped into %d short right-hand sides B on %d documents (every 2nd cell on the first document, every 7th on the others; shard %d/%d: %d pairs)", len(shapeLHS), len(shapeOps), len(shapeRHS), len(shapePipeRHS), len(shapeDocs), shard, nshards, n)
	st.mu.Unlock()
}

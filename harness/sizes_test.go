package harness

// Size sweeps: behaviour that changes only beyond a size or length threshold (small-size
// fast paths, buffers, chunking, sort cut-offs, depth guards). Each sweep walks a size
// parameter densely through 0..~300 (sparser above) so that a threshold anywhere in that
// range is crossed, and runs a fixed set of expressions against the reference model.

import (
	"fmt"
	"os"
	"strconv"
	"strings"
	"testing"

	"verifharness/ref"
)

func getenv(k string) string { return os.Getenv(k) }

func refParse(e string) (*ref.Node, ref.LexStatus, error) { return ref.ParseText(e) }

// sweepSizes: every size up to 72 (all small thresholds and their neighbours), then the
// neighbourhoods of larger powers of two and round numbers.
func sweepSizes() []int {
	var out []int
	for n := 0; n <= 72; n++ {
		out = append(out, n)
	}
	for _, c := range []int{96, 100, 127, 128, 129, 191, 192, 193, 200, 255, 256, 257, 300, 511, 512, 513, 1000, 1023, 1024, 1025} {
		out = append(out, c)
	}
	return out
}

func sizeDoc(n int) string {
	nums := make([]string, n)   // unsorted numbers with ties
	desc := make([]string, n)   // strictly descending
	strs := make([]string, n)   // strings with ties, multi-byte
	objs := make([]string, n)   // objects: keys n (ties), s, i, and a null/absent member
	nulls := make([]string, n)  // every third element null
	nested := make([]string, n) // arrays (for flatten)
	keys := make([]string, n)
	for i := 0; i < n; i++ {
		nums[i] = strconv.Itoa((i*7 + 3) % 11)
		desc[i] = strconv.Itoa(n - i)
		strs[i] = strconv.Quote([]string{"b", "a", "é", "", "c", "ab", "𝒳"}[(i*3)%7] + strconv.Itoa(i%5))
		o := fmt.Sprintf(`{"n":%d,"s":%q,"i":%d,"d":%d`, (i*5)%7, []string{"y", "x", "é", "z"}[(i*3)%4], i, n-i)
		if i%4 != 1 {
			o += `,"p":` + []string{"null", `{"q":1}`, `"v"`}[i%3]
		}
		objs[i] = o + "}"
		if i%3 == 2 {
			nulls[i] = "null"
		} else {
			nulls[i] = strconv.Itoa(i)
		}
		nested[i] = fmt.Sprintf("[%d,[%d]]", i, i%2)
		keys[i] = fmt.Sprintf(`"k%d":%d`, i, i%9)
	}
	j := func(a []string) string { return "[" + strings.Join(a, ",") + "]" }
	return `{"nums":` + j(nums) + `,"desc":` + j(desc) + `,"strs":` + j(strs) + `,"objs":` + j(objs) + `,"nulls":` + j(nulls) + `,"nested":` + j(nested) + `,"obj":{` + strings.Join(keys, ",") + `},"str":` + strconv.Quote(strings.Repeat("ab", n/2)+strings.Repeat("c", n%2)) + `}`
}

var sizeExprs = []string{
	// functions over arrays
	"sort(nums)", "sort(strs)", "sort(desc)", "max(nums)", "min(strs)", "sum(nums)", "avg(nums)", "avg(desc)", "reverse(nums)", "reverse(objs)[*].i", "join('|', strs)", "join('', strs)", "length(nums)", "length(obj)", "length(str)",
	"sort_by(objs, &n)[*].i", "sort_by(objs, &s)[*].i", "sort_by(objs, &d)[*].i", "max_by(objs, &n).i", "min_by(objs, &s).i", "max_by(objs, &d).i", "map(&i, objs)", "map(&p, objs)", "contains(nums, `3`)", "contains(desc, `1`)",
	"to_array(nums) | length(@)", "not_null(nulls) | length(@)", "keys(obj) | length(@)", "values(obj) | sort(@)", "merge(obj, obj) | length(@)", "to_string(nums) | length(@)", "reverse(str)", "contains(str, 'c')", "ends_with(str, 'c')",
	// projections
	"objs[*].i", "objs[*].p", "objs[*].p.q", "nulls[*]", "nulls[*] | length(@)", "objs[?p].i", "objs[?!p].i", "objs[?n > `3`].s", "nested[]", "nested[][]", "nested[*][1][0]", "obj.*", "obj.* | length(@)", "obj.* | sort(@)",
	"nums[1:]", "nums[:-1]", "nums[::2]", "nums[::-1]", "nums[10:80]", "nums[5:5:2]", "nums[40:75]", "objs[1:].i", "objs[::-3].i", "nulls[2::3]", "desc[-3:]", "desc[3:1:-1]", "objs[*].[i, n]", "objs[*].{a: i, b: p}",
	"[nums, desc][]  | length(@)", "nums[?@ == `3`] | length(@)", "objs[0].i", "objs[-1].i", "nums | [0]", "objs[*].i | [-1]", "sort_by(objs, &n) | [0].i", "sort_by(objs, &n) | [*].n",
	// same array read again after a function saw it (in-place effects)
	"[sort_by(objs, &d)[0].i, objs[0].i]", "[sort(desc)[0], desc[0]]", "[reverse(nums)[0], nums[0]]", "[max_by(objs, &d).i, objs[0].i, length(objs)]", "[map(&i, objs)[0], objs[0].i]",
	// errors must stay errors at every size
	"sort(nulls)", "sum(strs)", "join('', nums)", "sort_by(objs, &p)", "max_by(objs, &p)", "avg(strs)", "sort_by(nulls, &@)", "map(&abs(s), objs)",
}

// TestSizeSweep runs under the property named by VERIF_PROP (C02, C06, C09, C16): the same
// cases are judged by that property's predicate.
func TestSizeSweep(t *testing.T) {
	prop := envStr("VERIF_PROP", "C09")
	kind := map[string]string{"C02": "diff", "C09": "diff", "C10": "diff", "C11": "diff", "C06": "nomutate", "C16": "jsondata"}[prop]
	if kind == "" {
		kind = "diff"
	}
	shard, nshards := envInt("VERIF_SHARD", 0), envInt("VERIF_NSHARDS", 1)
	n := 0
	for si, size := range sweepSizes() {
		if si%nshards != shard {
			continue
		}
		doc := sizeDoc(size)
		for ei, e := range sizeExprs {
			if size > 300 && ei%3 != 0 {
				continue
			}
			run(t, Case{Property: prop, Kind: kind, Expr: e, Doc: doc, Extra: map[string]interface{}{"cell": "size"}})
			n++
		}
	}
	// projections that collect nothing, at every size and beyond the sweep (a result buffer sized for
	// the input and trimmed, or dropped, when it stays empty)
	big := append(append([]int{}, sweepSizes()...), 2047, 2048, 2049, 4096, 4097, 10000)
	for si, size := range big {
		if si%nshards != shard {
			continue
		}
		doc := sizeDoc(size)
		for _, e := range []string{"nums[?@ > `1000`]", "objs[?n > `100`]", "objs[*].nosuch", "nested[*].x", "nums[?`false`]", "strs[?@ == 'nope']", "nulls[?@ == `-1`]", "objs[?nosuch].n", "{hits: nums[?@ > `1000`]}", "[objs[*].nosuch, nums[?`false`]]", "objs[].nosuch", "nums[?@ > `1000`] | length(@)", "to_string(objs[*].nosuch)", "nums[99999:]", "objs[*].p.q.r"} {
			run(t, Case{Property: prop, Kind: kind, Expr: e, Doc: doc, Extra: map[string]interface{}{"cell": "size-empty"}})
			n++
		}
	}
	st := statsFor(prop)
	st.mu.Lock()
	st.Exhaustive[prop+".size-sweep"] = fmt.Sprintf("%d expressions (array/string functions, projections, slices, re-reads, error cases) on documents whose arrays, object and string have every size 0..72 and the neighbourhoods of 96..1025 (shard %d/%d: %d cases)", len(sizeExprs), shard, nshards, n)
	st.mu.Unlock()
}

func envStr(name, def string) string {
	if v := strings.TrimSpace(getenv(name)); v != "" {
		return v
	}
	return def
}

// ---------------------------------------------------------------------------
// Strings: mostly ASCII with one multi-byte character at a chosen position, every byte
// length 0..72 (block-wise ASCII scans, 8/16/64-byte chunks).

func TestC09StringSizes(t *testing.T) {
	prop := envStr("VERIF_PROP", "C09") // also run under C05 and C11 (the failing calls below)
	n := 0
	totals := []int{}
	for total := 0; total <= 72; total++ {
		totals = append(totals, total)
	}
	totals = append(totals, 126, 127, 128, 129, 130, 254, 255, 256, 257, 258, 1022, 1023, 1024, 1025, 1026, 4095, 4096, 4097, 65535, 65536, 65537)
	for _, total := range totals {
		for _, mb := range []string{"", "é", "𝒳", "ࠀ"} {
			for _, posKind := range []int{0, 1, 2, 3} {
				if mb == "" && posKind > 0 {
					continue
				}
				ascii := total - len(mb)
				if ascii < 0 {
					continue
				}
				pos := []int{0, ascii, ascii / 2, maxInt(ascii-1, 0)}[posKind]
				base := make([]byte, ascii)
				for i := range base {
					base[i] = "abcdefgh"[i%8]
				}
				s := string(base[:pos]) + mb + string(base[pos:])
				doc := `{"s":` + strconv.Quote(s) + `,"t":"a"}`
				for _, e := range []string{"reverse(s)", "length(s)", "reverse(reverse(s)) == s", "length(reverse(s)) == length(s)", "ends_with(s, 'h')", "starts_with(s, 'ab')", "contains(s, 'é')", "join('-', [s, t, s])",
					"sort([s, t, 'b'])", "max([s, t])", "to_string(s)", "to_number(s)", "[s, s] | [1]", "s == reverse(reverse(s))", "{k: s}.k", "not_null(s)",
					// the string as the offending argument of a failing call (error texts that quote, shorten or escape it)
					"abs(s)", "keys(s)", "sum([s])", "avg([`1`, s])", "join(s, [`1`])", "sort([s, `1`])", "max_by([@], &s) | abs(s)", "length(abs(s))", "ceil(s) || s", "merge(s)", "map(&abs(@), [s])", "sort_by([@, @], &abs(s))", "nosuch(s)", "to_number(s) | abs(s)"} {
					run(t, Case{Property: prop, Kind: "diff", Expr: e, Doc: doc, Extra: map[string]interface{}{"cell": "strsize"}})
					n++
				}
				if !strings.ContainsAny(s, "'\\") && total <= 1100 {
					// the same string written in the expression: raw string, quoted identifier, JSON literal
					for _, e := range []string{"abs('" + s + "')", "length('" + s + "')", "keys(`" + strconv.Quote(s) + "`)", "\"" + s + "\"", "@.\"" + s + "\" || abs('" + s + "')", "{\"" + s + "\": t}", "reverse('" + s + "') == reverse(s)"} {
						run(t, Case{Property: prop, Kind: "diff", Expr: e, Doc: doc, Extra: map[string]interface{}{"cell": "strsize"}})
						n++
					}
				}
			}
		}
	}
	st := statsFor(prop)
	st.mu.Lock()
	st.Exhaustive[prop+".string-sizes"] = fmt.Sprintf("string functions, succeeding and failing, on ASCII strings of every byte length 0..72 and around 128, 256, 1024, 4096, 65536 with no / one 2-, 3- or 4-byte character at the start, end, middle or next-to-last position, as document value and written in the expression: %d cases", n)
	st.mu.Unlock()
}

func maxInt(a, b int) int {
	if a > b {
		return a
	}
	return b
}

// ---------------------------------------------------------------------------
// C07: equality and truthiness on deeply nested values (depth guards).

func nestValue(depth int, leaf string, kind int) string {
	v := leaf
	for d := 0; d < depth; d++ {
		switch (d + kind) % 3 {
		case 0:
			v = "[" + v + "]"
		case 1:
			v = `{"k":` + v + "}"
		default:
			v = "[0," + v + "]"
		}
	}
	return v
}

func TestC07Depth(t *testing.T) {
	n := 0
	for depth := 0; depth <= 80; depth++ {
		for kind := 0; kind < 3; kind++ {
			for _, leaves := range [][2]string{{"[1]", "[1]"}, {"[1]", "[2]"}, {`{"a":1}`, `{"a":1}`}, {`{"a":1}`, `{"b":1}`}, {"[]", "[]"}, {"[]", "{}"}, {"1", "1"}, {`"x"`, `"y"`}} {
				a, b := nestValue(depth, leaves[0], kind), nestValue(depth, leaves[1], kind)
				doc := `{"a":` + a + `,"b":` + b + `,"l":[{"v":` + a + `,"w":` + b + `}]}`
				for _, e := range []string{"a == b", "a != b", "l[?v == w] | length(@)", "contains([a], b)", "contains(`[1]`, `2`) || a == b", "!a", "a && `1`", "[a] == [b]", "{x: a} == {x: b}", lit(a) + " == " + lit(b)} {
					run(t, Case{Property: "C07", Kind: "diff", Expr: e, Doc: doc, Extra: map[string]interface{}{"cell": "depth"}})
					n++
				}
			}
		}
	}
	st := statsFor("C07")
	st.mu.Lock()
	st.Exhaustive["C07.depth"] = fmt.Sprintf("equality / truthiness on values nested 0..80 levels deep (3 nesting patterns x 8 leaf pairs x 10 expressions): %d cases", n)
	st.mu.Unlock()
}

// ---------------------------------------------------------------------------
// C01: long tokens (numbers with many digits, long identifiers, keys, raw strings,
// literals, many multi-select members).

func TestC01TokenSizes(t *testing.T) {
	n := 0
	for k := 1; k <= 40; k++ {
		nines := strings.Repeat("9", k)
		one0 := "1" + strings.Repeat("0", k-1)
		for _, num := range []string{nines, one0, "-" + nines, one0 + ".5", "0." + nines, nines + "e2", "1e" + strconv.Itoa(k), "1e-" + strconv.Itoa(k)} {
			run(t, Case{Property: "C01", Kind: "diff", Expr: "[" + lit(num) + ", " + lit("["+num+"]") + "[0], {a: " + lit(num) + "}]", Doc: "1", Extra: map[string]interface{}{"cell": "numlen"}})
			run(t, Case{Property: "C01", Kind: "diff", Expr: lit(num), Doc: "null", Extra: map[string]interface{}{"cell": "numlen"}})
			n++
		}
	}
	for _, size := range sweepSizes() {
		if size == 0 || size > 520 {
			continue
		}
		id := strings.Repeat("k", size)
		raw := strings.Repeat("r", size)
		doc := `{"` + id + `":{"a":1},"a":[` + strings.TrimSuffix(strings.Repeat("7,", size), ",") + `]}`
		members := strings.TrimSuffix(strings.Repeat("a[0], ", size), ", ")
		hash := make([]string, size)
		for i := range hash {
			hash[i] = "m" + strconv.Itoa(i) + ": a[" + strconv.Itoa(i) + "]"
		}
		for _, e := range []string{id + ".a", `"` + id + `".a`, "{" + id + ": a[0]}", "'" + raw + "'", lit(strconv.Quote(raw)), "[" + members + "]", "[" + members + "] | [-1]", "{" + strings.Join(hash, ", ") + "}", "a[" + strconv.Itoa(size-1) + "]", "a[-" + strconv.Itoa(size) + "]",
			"a[" + strconv.Itoa(size) + "]", "a[0" + strconv.Itoa(size-1) + "]", strings.Repeat("(", size%90) + "a[0]" + strings.Repeat(")", size%90)} {
			run(t, Case{Property: "C01", Kind: "diff", Expr: e, Doc: doc, Extra: map[string]interface{}{"cell": "toklen"}})
			n++
		}
	}
	st := statsFor("C01")
	st.mu.Lock()
	st.Exhaustive["C01.token-sizes"] = fmt.Sprintf("number literals of 1..40 digits (integers, fractions, exponents); identifiers, quoted keys, raw strings, literals, multi-select lists/hashes and indices of every size 1..72 and around 96..513: %d cases", n)
	st.mu.Unlock()
}

// ---------------------------------------------------------------------------
// C03/C04: long runs of one operator (run-length optimisations, depth guards).

func TestC04Runs(t *testing.T) {
	prop := envStr("VERIF_PROP", "C04")
	n := 0
	for k := 1; k <= 80; k++ {
		rep := func(s string) string { return strings.Repeat(s, k) }
		forms := []string{
			rep("!") + "a", rep("!") + "a.c", rep("(") + "a" + rep(")"), "a" + rep("[]"), "a" + rep("[]") + ".b", "a" + rep("[]") + " | b", "a" + rep("[*]"), "a" + rep("[*]") + ".b", "a" + rep(".a"), "a" + rep("[0]"), "a" + rep(" | a"),
			"a" + rep(" || a"), "a" + rep(" && a"), "a" + rep("[?a]"), rep("[") + "a" + rep("]"), rep("{a: ") + "a" + rep("}"), rep("abs(") + "a" + rep(")"), "a" + rep(".*"), "a" + rep("[1:]"), "a" + rep(" == a"), rep("!(") + "a" + rep(")"),
			"a" + rep("[]") + "[0]", "a" + rep("[]") + ".[b]", "not_null(" + strings.TrimSuffix(rep("a, "), ", ") + ")", "[" + strings.TrimSuffix(rep("a, "), ", ") + "]", rep("(") + "a" + rep(")") + rep("[0]"),
		}
		for _, e := range forms {
			if prop == "C03" {
				n0, _, perr := refParse(e)
				if perr != nil {
					t.Fatalf("HARNESS-ERROR: run form %q is not a sentence", e)
				}
				c := Case{Property: "C03", Kind: "parse", Expr: e}
				if k <= 12 {
					// (the minimal-spelling search is quadratic: for long runs compare the given spelling only)
					if cc, ok := parseCase(e, n0, nil); ok {
						c = cc
					}
				}
				run(t, c)
			} else {
				run(t, Case{Property: prop, Kind: "lang", Expr: e, Extra: map[string]interface{}{"nearmiss": true}})
			}
			n++
		}
	}
	st := statsFor(prop)
	st.mu.Lock()
	st.Exhaustive[prop+".runs"] = fmt.Sprintf("26 expression forms built from a run of 1..80 repetitions of one operator or bracket (!, parentheses, [], [*], .a, [0], pipes, ||, &&, filters, multi-selects, calls, slices, comparators): %d sentences", n)
	st.mu.Unlock()
}

// TestC15Sizes: referential transparency and the pipe law around functions that might
// work in place beyond a size threshold: the same array is read again after (or piped
// out of) a function call.
func TestC15Sizes(t *testing.T) {
	ctxs := []string{"[sort_by(%s, &d)[0].i, %s[0].i, %s | [-1].i]", "[sort_by(%s, &s)[*].i, %s[*].i]", "[max_by(%s, &d).i, %s[0].i]", "[reverse(%s)[0].i, %s[0].i]", "[map(&i, %s)[0], %s[0].i]", "[%s[1:][0].i, %s[0].i]", "{a: sort_by(%s, &n)[0], b: %s[0]}"}
	nctx := []string{"[sort(%s)[0], %s[0], %s | [-1]]", "[reverse(%s)[0], %s[0]]", "[max(%s), %s[0]]", "[sum(%s), avg(%s), %s[0]]", "[%s[::-1][0], %s[0]]"}
	n := 0
	for _, size := range sweepSizes() {
		if size > 300 {
			continue
		}
		doc := sizeDoc(size)
		for _, c := range ctxs {
			run(t, Case{Property: "C15", Kind: "subst", Expr: "objs", Doc: doc, Extra: map[string]interface{}{"ctx": c}})
			run(t, Case{Property: "C15", Kind: "pipe", Expr: "{x: objs}", Doc: doc, Extra: map[string]interface{}{"b": strings.Replace(c, "%s", "x", -1)}})
			n += 2
		}
		for _, c := range nctx {
			for _, hole := range []string{"desc", "nums", "strs"} {
				if hole == "strs" && strings.Contains(c, "sum(") {
					continue
				}
				run(t, Case{Property: "C15", Kind: "subst", Expr: hole, Doc: doc, Extra: map[string]interface{}{"ctx": c}})
				n++
			}
		}
	}
	st := statsFor("C15")
	st.mu.Lock()
	st.Exhaustive["C15.sizes"] = fmt.Sprintf("substitution and pipe laws with the same array read again after sort_by/sort/reverse/max_by/map/slices, for array sizes 0..72 and around 96..300: %d cases", n)
	st.mu.Unlock()
}

package harness

// C18 (Go structs, pointers, typed slices) and C19 (the jpgo command).

import (
	"bytes"
	"context"
	"encoding/json"
	"fmt"
	"os"
	"os/exec"
	"path/filepath"
	"reflect"
	"strconv"
	"strings"
	"testing"
	"time"

	jp "github.com/jmespath/go-jmespath"
	"pgregory.net/rapid"

	"verifharness/ref"
)

func init() {
	predicates["struct"] = predStruct
	predicates["cli"] = predCLI
}

// ---------------------------------------------------------------------------
// C18: run-time generated struct types. A type is described by a small
// serialisable spec so that cases can be replayed:
//
//	{"k":"string"|"float64"|"bool"|"int"}
//	{"k":"struct","f":[{"n":"Name","t":spec},...]}
//	{"k":"ptr","e":spec}        (e is a struct)
//	{"k":"slice","e":spec}
//
// and a value by JSON-like data following the spec (null for a nil pointer).

type tspec map[string]interface{}

func buildType(s map[string]interface{}) reflect.Type {
	switch s["k"].(string) {
	case "string":
		return reflect.TypeOf("")
	case "float64":
		return reflect.TypeOf(float64(0))
	case "bool":
		return reflect.TypeOf(false)
	case "int":
		return reflect.TypeOf(int(0))
	case "struct":
		fs := s["f"].([]interface{})
		fields := make([]reflect.StructField, len(fs))
		for i, f := range fs {
			fm := f.(map[string]interface{})
			fields[i] = reflect.StructField{Name: fm["n"].(string), Type: buildType(fm["t"].(map[string]interface{}))}
		}
		return reflect.StructOf(fields)
	case "ptr":
		return reflect.PointerTo(buildType(s["e"].(map[string]interface{})))
	case "slice":
		return reflect.SliceOf(buildType(s["e"].(map[string]interface{})))
	}
	panic("HARNESS-ERROR: bad type spec")
}

// buildValue fills a value of the type described by s from data.
func buildValue(s map[string]interface{}, data interface{}) reflect.Value {
	typ := buildType(s)
	v := reflect.New(typ).Elem()
	switch s["k"].(string) {
	case "string":
		v.SetString(data.(string))
	case "float64":
		v.SetFloat(data.(float64))
	case "bool":
		v.SetBool(data.(bool))
	case "int":
		v.SetInt(int64(data.(float64)))
	case "struct":
		m := data.(map[string]interface{})
		for i, f := range s["f"].([]interface{}) {
			fm := f.(map[string]interface{})
			v.Field(i).Set(buildValue(fm["t"].(map[string]interface{}), m[fm["n"].(string)]))
		}
	case "ptr":
		if data == nil {
			return v // nil pointer
		}
		e := buildValue(s["e"].(map[string]interface{}), data)
		p := reflect.New(e.Type())
		p.Elem().Set(e)
		return p
	case "slice":
		arr := data.([]interface{})
		sl := reflect.MakeSlice(typ, len(arr), len(arr))
		for i, e := range arr {
			sl.Index(i).Set(buildValue(s["e"].(map[string]interface{}), e))
		}
		return sl
	}
	return v
}

// (among them names whose lower-case spelling - the one expressions use - is a Go keyword, a
// predeclared identifier or a JSON word: legal exported field names all the same)
var fieldNames = []string{"Name", "Age", "Tags", "Items", "Next", "Ptr", "Flag", "Vals", "Kids", "Inner", "Type", "Map", "Range", "Default", "Func", "Select", "Go", "If", "Var", "Nil", "True", "Null", "Len", "X", "String", "Interface", "Struct", "Return", "Zone", "Zeta", "Az", "Za", "Aa", "M", "Z"}

func genTypeSpec(t *rapid.T, depth int) map[string]interface{} {
	k := rapid.IntRange(0, 9).Draw(t, "tk")
	if depth >= 3 && k >= 4 {
		k = rapid.IntRange(0, 3).Draw(t, "tkLeaf")
	}
	switch k {
	case 0:
		return map[string]interface{}{"k": "string"}
	case 1:
		return map[string]interface{}{"k": "float64"}
	case 2:
		return map[string]interface{}{"k": "bool"}
	case 3:
		return map[string]interface{}{"k": "int"}
	case 4, 5:
		return genStructSpec(t, depth+1)
	case 6:
		return map[string]interface{}{"k": "ptr", "e": genStructSpec(t, depth+1)}
	default:
		var e map[string]interface{}
		switch rapid.IntRange(0, 6).Draw(t, "elemK") {
		case 0:
			e = map[string]interface{}{"k": "string"}
		case 1:
			e = map[string]interface{}{"k": "float64"}
		case 2:
			e = map[string]interface{}{"k": "slice", "e": map[string]interface{}{"k": []string{"string", "float64"}[rapid.IntRange(0, 1).Draw(t, "innerElem")]}}
		case 3, 4:
			e = genStructSpec(t, depth+1)
		default:
			e = map[string]interface{}{"k": "ptr", "e": genStructSpec(t, depth+1)}
		}
		return map[string]interface{}{"k": "slice", "e": e}
	}
}

func genStructSpec(t *rapid.T, depth int) map[string]interface{} {
	n := rapid.IntRange(1, 4).Draw(t, "nf")
	used := map[string]bool{}
	var fs []interface{}
	for i := 0; i < n; i++ {
		name := fieldNames[rapid.IntRange(0, len(fieldNames)-1).Draw(t, "fname")]
		if used[name] {
			continue
		}
		used[name] = true
		fs = append(fs, map[string]interface{}{"n": name, "t": genTypeSpec(t, depth+1)})
	}
	return map[string]interface{}{"k": "struct", "f": fs}
}

func genData(t *rapid.T, s map[string]interface{}) interface{} {
	switch s["k"].(string) {
	case "string":
		return rapid.SampledFrom([]string{"", "a", "b", "é", "xyz", "𝄞", "\ufffdx", "ǆ", "a\u0301"}).Draw(t, "ds")
	case "float64":
		return rapid.SampledFrom([]float64{0, 1, -1, 2.5, 10, 1e21, 1e-7, 9007199254740993, 0.1}).Draw(t, "df")
	case "bool":
		return rapid.Bool().Draw(t, "db")
	case "int":
		return float64(rapid.IntRange(-2, 5).Draw(t, "di"))
	case "struct":
		m := map[string]interface{}{}
		for _, f := range s["f"].([]interface{}) {
			fm := f.(map[string]interface{})
			m[fm["n"].(string)] = genData(t, fm["t"].(map[string]interface{}))
		}
		return m
	case "ptr":
		if rapid.IntRange(0, 3).Draw(t, "nilPtr") == 0 {
			return nil
		}
		return genData(t, s["e"].(map[string]interface{}))
	default:
		n := rapid.IntRange(0, 4).Draw(t, "dn")
		if uni(t, 12, "dnBig") == 0 {
			n = thresholdSizes[uni(t, 14, "dnBigN")] // up to 24 elements
		}
		arr := make([]interface{}, n)
		for i := range arr {
			arr[i] = genData(t, s["e"].(map[string]interface{}))
		}
		return arr
	}
}

func normalise(v interface{}) (interface{}, error) {
	b, err := json.Marshal(v)
	if err != nil {
		return nil, err
	}
	return ref.ParseJSON(string(b))
}

// predStruct: Extra = {spec, data, mode}: mode "equiv" | "lowercase" | "nopanic".
func predStruct(c Case) (r Result) {
	spec := c.Extra["spec"].(map[string]interface{})
	data := c.Extra["data"]
	mode := c.Extra["mode"].(string)
	expr := c.expr()
	var goValue interface{}
	if p := safely(func() {
		rv := buildValue(spec, data)
		if c.Extra["rootptr"] == true && rv.Kind() == reflect.Struct {
			p := reflect.New(rv.Type())
			p.Elem().Set(rv)
			rv = p
		}
		goValue = rv.Interface()
	}); p != nil {
		r.Discard = "HARNESS:cannot-build-value"
		r.Violation = fmt.Sprint(p)
		return
	}
	twin, err := normalise(goValue)
	if err != nil {
		r.Discard = "HARNESS:cannot-normalise"
		r.Violation = err.Error()
		return
	}
	so := libSearch(expr, goValue)
	if so.Panic != nil {
		r.Nontrivial = true
		r.Violation = "Search panicked on struct/pointer/typed-slice data"
		r.Got = showOut(so)
		return
	}
	specText, _ := json.Marshal(spec)
	touches := strings.Contains(string(specText), `"ptr"`) || strings.Contains(string(specText), `"slice"`)
	switch mode {
	case "nopanic":
		r.Nontrivial = touches
		r.class("nopanic")
		return
	case "lowercase":
		up := c.Extra["upper"].(string)
		uo := libSearch(up, goValue)
		if uo.Panic != nil {
			r.Violation = "Search panicked"
			r.Got = showOut(uo)
			return
		}
		a, e1 := normalise(so.Val)
		b, e2 := normalise(uo.Val)
		if (so.Err != nil) != (uo.Err != nil) || e1 != nil || e2 != nil || (so.Err == nil && !reflect.DeepEqual(a, b)) {
			r.Violation = "a field name is not matched after upper-casing its first letter"
			r.Expected, r.Got = up+" => "+showOut(uo), expr+" => "+showOut(so)
			return
		}
		r.Nontrivial = b != nil
		r.class("lowercase")
		return
	}
	// equivalence with the generic JSON form. length() is in the property's domain for
	// slices and strings only: a struct is not an object for length().
	if n, st, perr := ref.ParseText(expr); perr == nil && st == ref.LexOK {
		ev := &ref.Ev{}
		_, _ = ev.Eval(n, ref.DeepCopy(twin))
		if ev.Stats["length.object"] > 0 {
			r.Discard = "outside-domain:length-of-struct"
			return
		}
	}
	to := libSearch(expr, twin)
	if to.Panic != nil {
		r.Discard = "generic-form-panics"
		return
	}
	if (so.Err != nil) != (to.Err != nil) {
		r.Violation = "struct form and generic JSON form disagree about failure"
		r.Expected, r.Got = "generic: "+showOut(to), "struct: "+showOut(so)
		return
	}
	if so.Err != nil {
		r.class("both-error")
		return
	}
	sn, err := normalise(so.Val)
	if err != nil {
		r.Violation = "result on struct data cannot be serialised: " + err.Error()
		return
	}
	if !reflect.DeepEqual(sn, to.Val) {
		r.Violation = "navigation on struct/pointer/typed-slice data differs from the equivalent generic JSON document"
		r.Expected, r.Got = "generic: "+show(to.Val), "struct: "+show(sn)
		return
	}
	r.Nontrivial = touches && (to.Val != nil || strings.Contains(ref.Canon(twin), "null"))
	if to.Val == nil {
		r.class("equiv.null")
	} else {
		r.class("equiv.value")
	}
	return
}

// navigational fragment for the equivalence check
var fragNav = frag{projections: true, filters: true, slices: true, boolean: true, functions: true, maxDepth: 4, mismatch: 10, nav: true}

func TestC18Equiv(t *testing.T) {
	rapid.Check(t, func(t *rapid.T) {
		spec := genStructSpec(t, 0)
		data := genData(t, spec)
		var goValue interface{}
		if p := safely(func() { goValue = buildValue(spec, data).Interface() }); p != nil {
			t.Fatalf("HARNESS-ERROR: cannot build value: %v", p)
		}
		twin, err := normalise(goValue)
		if err != nil {
			t.Fatalf("HARNESS-ERROR: %v", err)
		}
		expr := genExpr(t, twin, fragNav)
		rootptr := rapid.Bool().Draw(t, "rootptr")
		run(t, Case{Property: "C18", Kind: "struct", Expr: expr, Extra: map[string]interface{}{"spec": spec, "data": data, "mode": "equiv", "rootptr": rootptr}})
	})
}

func TestC18Lowercase(t *testing.T) {
	plainKeysOnly = true
	rapid.Check(t, func(t *rapid.T) {
		spec := genStructSpec(t, 0)
		data := genData(t, spec)
		var goValue interface{}
		if p := safely(func() { goValue = buildValue(spec, data).Interface() }); p != nil {
			t.Fatalf("HARNESS-ERROR: cannot build value: %v", p)
		}
		twin, _ := normalise(goValue)
		f := fragNav
		f.boolean = false
		g := &exprGen{t: t, f: f}
		lex := g.expr(twin, 0)
		lower := make([]string, len(lex))
		changed := false
		for i, l := range lex {
			lower[i] = l
			// field names only: not function names, and not the keys of a multi-select hash (those name the result's members)
			if ref.IsUnquotedIdentifier(l) && l != "length" && l[0] >= 'A' && l[0] <= 'Z' && !(i+1 < len(lex) && (lex[i+1] == "(" || lex[i+1] == ":")) {
				lower[i] = strings.ToLower(l[:1]) + l[1:]
				changed = true
			}
		}
		if !changed {
			return
		}
		run(t, Case{Property: "C18", Kind: "struct", Expr: ref.RenderSpaced(lower), Extra: map[string]interface{}{"spec": spec, "data": data, "mode": "lowercase", "upper": ref.RenderSpaced(lex)}})
	})
}

func TestC18NoPanic(t *testing.T) {
	rapid.Check(t, func(t *rapid.T) {
		spec := genStructSpec(t, 0)
		data := genData(t, spec)
		var goValue interface{}
		if p := safely(func() { goValue = buildValue(spec, data).Interface() }); p != nil {
			t.Fatalf("HARNESS-ERROR: cannot build value: %v", p)
		}
		twin, _ := normalise(goValue)
		f := fragAll
		f.mismatch = 10
		expr := genExpr(t, twin, f)
		run(t, Case{Property: "C18", Kind: "struct", Expr: expr, Extra: map[string]interface{}{"spec": spec, "data": data, "mode": "nopanic", "rootptr": rapid.Bool().Draw(t, "rootptr")}})
	})
}

// hand-written types: what reflect.StructOf cannot build
type hwInner struct {
	Name string
	Tags []string
}
type hwEmbedded struct {
	Label string
}

// hwIntBox: numeric fields that are not float64 (what a projection over them yields is a list
// of Go integers, not of JSON numbers: functions may refuse it, never panic on it)
type hwIntBox struct {
	N   int
	U   uint8
	F   float32
	I64 int64
}
type hwLabel string
type hwScore float64
type hwBool bool

type hwDoc struct {
	hwEmbedded
	Label  hwLabel
	Score  hwScore
	On     hwBool
	Labels []hwLabel
	Name   string
	name   string // an unexported twin of Name (a lookup that ignores the case of the first letter finds two fields, hence none)
	_x     int
	lower  string
	Ünï    string
	Ǆep    string // U+01C4: upper case of the digraph ǆ; its title case ǅ is a different letter
	Ანი    string // Georgian Mtavruli capital: upper case of ა, which has no title case of its own
	Ωmega  []string
	Items  []*hwInner
	Inner  hwInner
	Ptr    *hwInner
	NilPtr *hwInner
	Nums   []float64
	Strs   []string
	PSlice *[]string // a pointer to a slice is not an array for any function: type errors, never panics
	PNil   *[]string
	Zero   *hwInner // a non-nil pointer to an all-zero struct: an object, hence true-like
	ZeroV  hwInner
	Ints   []hwIntBox
	Count  int
}

var hwExprs = []string{"avg(Ints[*].N)", "sum(Ints[*].N)", "max(Ints[*].U)", "min(Ints[*].F)", "sort(Ints[*].N)", "abs(Ints[0].N)", "Ints[*].N | avg(@)", "sort_by(Ints, &N)", "max_by(Ints, &U)", "min_by(Ints, &I64)", "Ints[?N > `1`]", "join(',', Ints[*].N)",
	"to_string(Ints[*].N)", "ceil(Ints[0].F)", "floor(Ints[0].I64)", "avg([Ints[0].N, `1`])", "sum([Count, Count])", "contains(Ints[*].N, `1`)", "abs(Count)", "Count > `1`", "Count == `2`", "to_number(Count)", "to_string(Count)", "type(Count)", "max([Count, `1`])", "sort([Count, Count])",
	"map(&abs(N), Ints)", "Ints[*].[N, U, F]", "Ints[].N", "reverse(Ints[*].N)", "not_null(Count)", "length(Ints[*].N)", "sort_by(Ints[*].N, &@)", "max_by(Ints[*].U, &@)", "merge({a: Count}, {b: Ints[0].N})", "Ints[*].N == Ints[*].N", "Ints[0].N < Ints[1].N",
	"PSlice.x", "PSlice.Name", "PNil.x", "PSlice.x.y", "[PSlice.x]", "PSlice.*", "Items[*].Tags.x", "Nums.x", "Strs[0].x", "!@", "@ || Name", "@ && Name", "Items[?@]", "Items[?!@]", "Items[?@].Name", "[Ptr, NilPtr][?@]", "Ptr && Name", "!Ptr", "Ptr || Name", "!Zero", "Zero && Name", "Zero || Name", "[Zero][?@]", "[Zero, NilPtr, Ptr][?@].Name", "!ZeroV", "ZeroV && Name", "[ZeroV][?@]", "!Inner", "Items[?@ && Name]", "length(PSlice)", "reverse(PSlice)", "PSlice[0]", "PSlice[*]", "PSlice[1:]", "PSlice[]", "PSlice[?@]", "contains(PSlice, 'a')", "map(&@, PSlice)", "sort_by(PSlice, &@)", "max_by(PSlice, &@)", "min_by(PSlice, &@)", "sort(PSlice)", "join(',', PSlice)",
	"to_array(PSlice)", "to_string(PSlice)", "type(PSlice)", "not_null(PSlice)", "PSlice == PSlice", "PSlice || Name", "length(PNil)", "reverse(PNil)", "PNil[0]", "PNil[*]", "contains(PNil, 'a')", "map(&@, PNil)", "type(PNil)", "merge(@, {a: PSlice})", "keys(PSlice)", "values(PSlice)", "max(PSlice)", "sum(PSlice)", "\"ǆep\"", "\"Ǆep\"", "\"ǅep\"", "\"ანი\"", "\"Ანი\"", "[\"ǆep\", \"ანი\"]", "Items[*].\"ǆep\"", "length(\"ანი\")", "_x", "lower", "Lower", "\"ünï\"", "\"Ünï\"", "Items[*].\"ünï\"", "\"ωmega\"", "@.\"Ωmega\"", "[\"ünï\", \"ωmega\"]", "{a: \"ünï\"}", "\"ünï\" || Name", "length(\"ünï\")", "Label", "label", "hwEmbedded", "HwEmbedded.Label", "NilPtr.[Name]", "NilPtr.{a: Name}",
	"NilPtr || Name", "NilPtr && Name", "!NilPtr", "Items[*].Name", "Items[?Name].Tags[]", "Items[].Tags", "Items[0]", "Items[1]", "Items[1].[Name]", "Items[*].[Name]", "[Ptr, NilPtr]",
	"reverse(Nums)", "reverse(Strs)", "contains(Strs, 'a')", "contains(Nums, `1`)", "map(&@, Nums)", "map(&Name, Items)", "sort_by(Items, &Name)", "max_by(Items, &Name)", "min_by(Items, &Name)",
	"sort(Strs)", "sort(Nums)", "sum(Nums)", "avg(Nums)", "max(Nums)", "min(Strs)", "join(',', Strs)", "length(Items)", "length(Strs)", "length(Name)", "length(@)", "length(Inner)", "keys(@)", "values(@)",
	"merge(@)", "merge(Inner, @)", "to_array(Strs)", "to_array(@)", "to_string(@)", "to_string(Items)", "to_number(@)", "to_number(Nums)", "type(@)", "type(Items)", "type(Ptr)", "type(NilPtr)", "not_null(NilPtr, Ptr)",
	"not_null(NilPtr)", "abs(Nums[0])", "ceil(Nums[0])", "floor(Nums)", "starts_with(Name, Strs[0])", "ends_with(Strs, 'a')", "Strs[::-1]", "Nums[1:]", "Items[:1].Name", "*", "@.*", "Inner.*", "Items[*].*", "\"\"", "@.\"\"", "é", "á",
	"reverse(Label)", "starts_with(Label, 'a')", "ends_with(Name, Label)", "contains(Label, 'a')", "contains(Labels, 'a')", "join(Label, Strs)", "join(',', Labels)", "length(Label)", "length(Labels)", "abs(Score)", "ceil(Score)",
	"sort(Labels)", "max(Labels)", "min(Labels)", "to_number(Label)", "to_string(Label)", "to_string(Labels)", "Label == 'x'", "Score > `1`", "!On", "On && Name", "On || Name", "sort_by(Labels, &@)", "max_by(Labels, &@)", "map(&reverse(@), Labels)",
	"map(&length(@), Labels)", "Labels[?@ == 'a']", "reverse(Labels)", "type(Label)", "type(Score)", "not_null(Label)", "to_array(Label)", "merge(@, {a: Label})", "sum([Score])", "avg([Score, Score])", "[Label, Score, On]", "Labels[0]", "Labels[::-1]",
	"Items[?Tags[0] == 'x']", "Nums[?@ > `1`]", "Strs[?@ == 'a']", "Nums == Nums", "Ptr == Ptr", "Inner == Inner", "Items[0] == Items[0]", "Nums < Nums", "sort_by(Nums, &@)", "sort_by(Strs, &@)", "max_by(Strs, &@)", "map(&to_string(@), Items)"}

// TestC18HandWritten: no expression panics on hand-written types with unexported,
// embedded, caseless-script and pointer-to-pointer fields.
func TestC18HandWritten(t *testing.T) {
	in := &hwInner{Name: "n", Tags: []string{"x", "y"}}
	docs := []interface{}{
		hwDoc{Ints: []hwIntBox{{N: 3, U: 200, F: 1.5, I64: -9}, {N: 1, U: 0, F: -0.5, I64: 1 << 40}}, Count: 2, Zero: &hwInner{}, PSlice: &[]string{"b", "a"}, Ǆep: "dz", Ანი: "ge", Ünï: "u", Ωmega: []string{"o1", "o2"}, Label: "lab", Score: 2.5, On: true, Labels: []hwLabel{"b", "a"}, Name: "d", Items: []*hwInner{in, nil, {Name: "", Tags: []string{}}}, Inner: *in, Ptr: in, Nums: []float64{2, 1}, Strs: []string{"b", "a"}},
		&hwDoc{Items: []*hwInner{}, Nums: []float64{}, Strs: []string{}},
		(*hwDoc)(nil),
		[]hwDoc{{Name: "x", Nums: []float64{1}, Strs: []string{"a"}, Items: []*hwInner{nil}}},
		[]*hwDoc{nil},
	}
	st := statsFor("C18")
	n := 0
	for di, d := range docs {
		for _, e := range hwExprs {
			for _, ctx := range []string{"%s", "[%s]", "[*].%s", "%s | [0]"} {
				expr := strings.Replace(ctx, "%s", e, 1)
				o := libSearch(expr, d)
				n++
				key := fmt.Sprintf("hw:%d:%s", di, expr)
				st.RecordKey(key, true, func() interface{} {
					return map[string]string{"expr": expr, "doc": fmt.Sprintf("hand-written #%d", di), "result": showOut(o)}
				}, "handwritten")
				if o.Panic != nil {
					c := Case{Property: "C18", Kind: "handwritten", Expr: expr, Note: fmt.Sprintf("panic on hand-written document %d: %v", di, o.Panic)}
					p := writeReplay(c)
					t.Fatalf("VIOLATION-CASE file=%s expr=%q doc=#%d: Search panicked: %v", p, expr, di, o.Panic)
				}
			}
		}
	}
	// nil pointer fields behave as null on hand-written types too
	d := docs[0]
	for e, want := range map[string]string{"NilPtr.[Name]": "null", "NilPtr.{a: Name}": "null", "NilPtr || Name": `"d"`, "!NilPtr": "true", "Items[1].[Name]": "null", "Items[*].[Name]": `[["n"],[""]]`, "[Ptr, NilPtr][1]": "null", "Items[*].Name": `["n",""]`, "not_null(NilPtr, Name)": `"d"`,
		"!Zero": "false", "Zero && Name": `"d"`, "!ZeroV": "false", "ZeroV && Name": `"d"`, "!Ptr": "false", "!@": "false", "@ && Name": `"d"`, "[Zero, NilPtr, Ptr][?@].Name": `["","n"]`, "Items[?@].Name": `["n",""]`, "!Inner": "false",
		`"ǆep"`: `"dz"`, `"Ǆep"`: `"dz"`, `"ანი"`: `"ge"`, `"Ანი"`: `"ge"`, `["ǆep", "ანი"]`: `["dz","ge"]`, `length("ანი")`: "2", `"ǆep" || Name`: `"dz"`,
		`"ünï"`: `"u"`, `"Ünï"`: `"u"`, `"ωmega"[1]`: `"o2"`, `"Ωmega"[*]`: `["o1","o2"]`, `["ünï", "ωmega"[0]]`: `["u","o1"]`, `length("ünï")`: "1", `"ünï" || Name`: `"u"`, `{a: "ωmega"[::-1]}`: `{"a":["o2","o1"]}`} {
		o := libSearch(e, d)
		got, _ := normalise(o.Val)
		if o.Panic != nil || o.Err != nil || ref.Canon(got) != want {
			c := Case{Property: "C18", Kind: "handwritten", Expr: e, Note: "nil pointer does not behave as null", Expected: want, Got: showOut(o)}
			p := writeReplay(c)
			t.Fatalf("VIOLATION-CASE file=%s expr=%q: expected %s got %s", p, e, want, showOut(o))
		}
	}
	st.mu.Lock()
	st.Exhaustive["C18.handwritten"] = fmt.Sprintf("%d expressions x 4 contexts x %d hand-written documents (unexported, embedded and caseless-script fields; nil pointer roots and elements): %d searches", len(hwExprs), len(docs), n)
	st.mu.Unlock()
}

func init() {
	predicates["handwritten"] = func(c Case) (r Result) {
		// replay of a hand-written-type failure: re-run the whole table
		r.Discard = "replay-by-running-TestC18HandWritten"
		return
	}
}

// ---------------------------------------------------------------------------
// C19

func jpgoPath() string { return os.Getenv("VERIF_JPGO") }

// predCLI: Expr = expression, Extra = {input, channel: "stdin"|"file", dashdash: bool}
func predCLI(c Case) (r Result) {
	bin := jpgoPath()
	if bin == "" {
		r.Discard = "HARNESS:no-jpgo-binary"
		r.Violation = "VERIF_JPGO not set"
		return
	}
	expr := c.expr()
	input := c.Extra["input"].(string)
	if b64, ok := c.Extra["input_b64"].(string); ok && b64 != "" {
		input = string(mustB64(b64))
	}
	channel := c.Extra["channel"].(string)
	if strings.ContainsRune(expr, 0) {
		r.Discard = "expression-contains-NUL"
		return
	}
	args := []string{}
	var stdin []byte
	if channel == "file" {
		dir := os.Getenv("VERIF_WORK")
		if dir == "" {
			dir = os.TempDir()
		}
		f, err := os.CreateTemp(dir, "jpgo-input-*.json")
		if err != nil {
			r.Discard = "HARNESS:tempfile"
			r.Violation = err.Error()
			return
		}
		f.WriteString(input)
		f.Close()
		defer os.Remove(f.Name())
		args = append(args, "-input", f.Name())
	} else {
		stdin = []byte(input)
	}
	if c.Extra["dashdash"] == true || strings.HasPrefix(expr, "-") {
		args = append(args, "--")
	}
	args = append(args, expr)
	// "exits with status ...": the process must exit. 30 s is four orders of magnitude above
	// what jpgo needs for these inputs (the same kind of watchdog as C05's).
	ctx, cancel := context.WithTimeout(context.Background(), 30*time.Second)
	defer cancel()
	cmd := exec.CommandContext(ctx, bin, args...)
	var stdout, stderr bytes.Buffer
	cmd.Stdout, cmd.Stderr = &stdout, &stderr
	var err error
	if c.Extra["stdin_file_offset"] == true && channel == "stdin" {
		// standard input is a regular file that the parent has read a header from already
		// (`{ read hdr; jpgo expr; } < file`): what remains to be read is not what stat() says
		dir := os.Getenv("VERIF_WORK")
		if dir == "" {
			dir = os.TempDir()
		}
		f, ferr := os.CreateTemp(dir, "jpgo-stdin-*.json")
		if ferr != nil {
			r.Discard = "HARNESS:tempfile"
			r.Violation = ferr.Error()
			return
		}
		defer os.Remove(f.Name())
		header := "# header line that was consumed before jpgo started\n"
		f.WriteString(header)
		f.Write(stdin)
		f.Seek(int64(len(header)), 0)
		cmd.Stdin = f
		err = cmd.Run()
		f.Close()
	} else if c.Extra["chunked"] == true && channel == "stdin" && len(stdin) >= 2 {
		// standard input arrives the way a producer on the other end of a pipe writes it: in
		// pieces, with pauses (end of input is the closing of the pipe, not the first short read)
		w, perr := cmd.StdinPipe()
		if perr != nil {
			r.Discard = "HARNESS:cannot-run-jpgo"
			r.Violation = perr.Error()
			return
		}
		if err = cmd.Start(); err == nil {
			cuts := []int{len(stdin) / 2, len(stdin) - 1}
			if len(stdin) > 8 {
				cuts = []int{1, len(stdin) / 2, len(stdin) - 1}
			}
			prev := 0
			for _, cut := range cuts {
				if cut > prev {
					_, _ = w.Write(stdin[prev:cut])
					time.Sleep(40 * time.Millisecond)
					prev = cut
				}
			}
			_, _ = w.Write(stdin[prev:])
			_ = w.Close()
			err = cmd.Wait()
		}
	} else {
		cmd.Stdin = bytes.NewReader(stdin)
		err = cmd.Run()
	}
	if ctx.Err() == context.DeadlineExceeded {
		r.Nontrivial = true
		r.Violation = "jpgo did not exit within 30 s"
		r.Got = "stdout so far: " + stdout.String()
		return
	}
	exit := 0
	if err != nil {
		if ee, ok := err.(*exec.ExitError); ok {
			exit = ee.ExitCode()
		} else {
			r.Discard = "HARNESS:cannot-run-jpgo"
			r.Violation = err.Error()
			return
		}
	}
	// oracle: the library in-process
	var doc interface{}
	jerr := json.Unmarshal([]byte(input), &doc)
	if jerr == nil {
		// where the specification leaves the outcome to the order of object members, two
		// evaluations (here: two processes) may legitimately differ, even in failing
		if n, st, e := ref.ParseText(expr); e == nil && st == ref.LexOK {
			ev := &ref.Ev{}
			_, _ = ev.Eval(n, ref.DeepCopy(doc))
			if ev.Ambiguous && !strings.HasPrefix(ev.Why, "arithmetic overflow") {
				// (a sum beyond the float64 range has no reference value, but here the referee is the
				// library's own Search: its result has no JSON form, so jpgo must fail)
				r.Discard = "ambiguous:" + ev.Why
				return
			}
		}
	}
	// one Search, the first thing the library does after whatever preceded this case: it is
	// the call a long-lived program makes and whose value jpgo is expected to print
	var lib libOut
	if jerr == nil {
		lib = libSearch(expr, doc)
	}
	_, cerr, _ := libCompile(expr)
	// "for an invalid expression": whether a text is an expression is the grammar's decision,
	// not the decision of the parser jpgo happens to be linked with. A text the reference
	// grammar rejects must fail in jpgo as well, unless the library accepts it for a reason
	// listed as an open finding of C04 (those are reported there, once).
	invalidByGrammar := false
	if toks, st, _ := ref.Lex(expr); st == ref.LexError {
		invalidByGrammar = true
	} else if st == ref.LexOK && !ref.IsSentence(ref.Kinds(toks)) {
		invalidByGrammar = cerr != nil || classifyAcceptedNonSentence(toks) == ""
	}
	expectOK := false
	reason := ""
	switch {
	case cerr != nil && !(jerr == nil && lib.Panic == nil && lib.Err == nil):
		// (when the one-shot Search evaluates the expression, its verdict counts: "prints exactly
		// the value the library's Search returns" - a Compile that refuses more than Search does
		// is no excuse for jpgo)
		reason = "syntax-error"
	case invalidByGrammar:
		reason = "invalid-expression"
	case jerr != nil:
		reason = "invalid-json-input"
	default:
		if lib.Panic != nil {
			r.Discard = "library-panics"
			return
		}
		if lib.Err != nil {
			reason = "evaluation-error"
		} else if _, merr := json.Marshal(lib.Val); merr != nil {
			reason = "unserialisable-result"
		} else {
			expectOK = true
			reason = "success"
		}
	}
	r.class("cli." + reason)
	r.class("channel." + channel)
	r.Nontrivial = reason != "success" || lib.Val != nil
	if !expectOK {
		if exit == 0 {
			r.Violation = "jpgo exits with status 0 on " + reason
			r.Got = "stdout: " + stdout.String()
			return
		}
		if strings.TrimSpace(stdout.String()) != "" {
			r.Violation = "jpgo prints a result on standard output on " + reason
			r.Got = stdout.String()
			return
		}
		return
	}
	if exit != 0 {
		r.Violation = "jpgo exits with a non-zero status although the library evaluates the expression"
		r.Expected, r.Got = show(lib.Val), fmt.Sprintf("exit %d stderr: %s", exit, stderr.String())
		return
	}
	outVal, perr := ref.ParseJSON(stdout.String())
	if perr != nil {
		r.Violation = "jpgo's standard output is not exactly one JSON value"
		r.Got = stdout.String()
		return
	}
	var want interface{} = lib.Val
	if n, st, e := ref.ParseText(expr); e == nil && st == ref.LexOK {
		ev := &ref.Ev{}
		w, werr := ev.Eval(n, ref.DeepCopy(doc))
		if ev.Ambiguous && strings.HasPrefix(ev.Why, "arithmetic overflow") {
			werr = fmt.Errorf("no reference value")
		} else if ev.Ambiguous {
			r.Discard = "ambiguous:" + ev.Why
			return
		}
		if werr == nil {
			want = w
		}
	}
	libNorm, _ := normalise(lib.Val)
	if _, st, e := ref.ParseText(expr); (e != nil || st != ref.LexOK) && unorderedExpr(expr) {
		// no reference value (the library takes this text for a reason listed as an open finding of
		// C04) and the expression lists object members, whose order two processes may choose
		// differently: compare with the elements of every array sorted
		if sortedCanon(outVal) != sortedCanon(libNorm) {
			r.Violation = "jpgo prints a different value than the library's Search returns"
			r.Expected, r.Got = show(lib.Val), stdout.String()
		}
		return
	}
	if !sameModuloOrder(outVal, libNorm, want) {
		r.Violation = "jpgo prints a different value than the library's Search returns"
		r.Expected, r.Got = show(lib.Val), stdout.String()
	}
	return
}

func mustB64(s string) []byte {
	c := Case{ExprB64: s}
	return []byte(c.expr())
}

var cliBadInputs = []string{"", " ", "{", "[1,", "{\"a\":}", "nul", "tru", "1 2", "{} x", "[1] [2]", "'a'", "{'a':1}", "\xff", "[\"\xff\"]", "NaN", "1e999", "{\"a\":1}}",
	// a byte order mark in front of the text (encoding/json does not accept one), with well-formed and malformed remainders
	"\xef\xbb\xbf{\"a\":1}", "\xef\xbb\xbf[1,2]", "\xef\xbb\xbf", "\xef\xbb\xbf{", "\xef\xbb\xbf[1,", "\xef\xbb\xbf{} x", "\xef\xbb\xbfnull", "\ufeff1", "\xff\xfe[\x001\x00]\x00", "{\"a\":1e999}", "[1,2e400]", "-1e999"}

func TestC19(t *testing.T) {
	if jpgoPath() == "" {
		t.Fatalf("HARNESS-ERROR: VERIF_JPGO not set")
	}
	if _, err := os.Stat(jpgoPath()); err != nil {
		t.Fatalf("HARNESS-ERROR: %v", err)
	}
	_ = filepath.Base
	rapid.Check(t, func(t *rapid.T) {
		doc := genDoc(t)
		var expr string
		switch rapid.IntRange(0, 9).Draw(t, "exprKind") {
		case 0, 1:
			expr = renderRandom(t, mutate(t, genSentence(t, 4+rapid.IntRange(0, 10).Draw(t, "budget"))))
		case 2:
			expr = errSeeds[rapid.IntRange(0, len(errSeeds)-1).Draw(t, "seed")].expr
		case 3:
			expr = []string{"avg(`[]`)", "to_number('inf')", "sum(`[1e308,1e308]`)", "-1", "-", "--", "-ast", "-input", "", " ", "a\nb", "'é'", "\"é\"", "@", "`\"x\"`", "`1` || nosuch(@)", "a || nosuch(@)", "`[]`[*].lenght(@)", "`false` && undefined_fn(a, b)", "a[?size(@) > `1`]", "avg(`[1e308,1e308]`)"}[rapid.IntRange(0, 20).Draw(t, "special")]
		case 6:
			// hard characters written in the expression itself (its only transport is one process
			// argument): C0 controls, ESC, DEL, C1 controls, line separators, a byte order mark - verbatim
			// in raw strings, and where JSON allows them unescaped in quoted identifiers and literals
			hs := strings.Replace(genHardString(t, "cliExprS"), "\x00", "\x01", -1)
			if uni(t, 2, "cliExprCtl") == 0 {
				hs = "a" + string(rune([]int{1, 7, 8, 0x1b, 0x1f, 0x7f, 0x80, 0x85, 0x9f, 0x2028, 0xfeff, 0xa0, 0x0c, 0x0b}[uni(t, 14, "cliCtl")])) + "b"
			}
			if uni(t, 4, "cliExprComment") == 0 {
				// text that a line-oriented pre-processor would take for a comment, a continuation or an option
				hs = []string{"todo:\n#1 fix", "x\n  # y\nz", "a\r\n#b", "#", "a # b", "// c", "/* c */", "-- c", "a \\\nb", "\n", "\n\n#", "#!/bin/sh", "-h", "--", "@file", "$HOME", "%PATH%", "a;b", "a\tb # c"}[uni(t, 19, "cliComment")]
			}
			minimal := func(x string) string {
				var sb strings.Builder
				for _, r := range x {
					switch {
					case r == '"' || r == '\\':
						sb.WriteByte('\\')
						sb.WriteRune(r)
					case r < 0x20:
						fmt.Fprintf(&sb, "\\u%04x", r)
					case r == '`':
						sb.WriteString("\\u0060")
					default:
						sb.WriteRune(r)
					}
				}
				return sb.String()
			}
			raw := "'x'"
			if !strings.Contains(hs, "\\") {
				raw = "'" + strings.Replace(hs, "'", "\\'", -1) + "'"
			}
			expr = []string{raw, "\"" + minimal(hs) + "\"", "`\"" + minimal(hs) + "\"`", "l[?@ == " + raw + "]", "[" + raw + ", s]", "{\"" + minimal(hs) + "\": s}", "s == " + raw, "@.\"" + minimal(hs) + "\" || " + raw}[uni(t, 8, "cliExprForm")]
			d := map[string]interface{}{"s": hs, "l": []interface{}{hs, "x"}, hs: 1.0}
			c := withExpr(Case{Property: "C19", Kind: "cli"}, expr)
			c.Extra = map[string]interface{}{"input": ref.Canon(d), "channel": []string{"stdin", "file"}[uni(t, 2, "ctlChannel")], "dashdash": rapid.Bool().Draw(t, "ctlDash")}
			run(t, c)
			return
		case 5:
			// texts that no lexer may accept, alone and inside a sentence
			expr = fmt.Sprintf([]string{"%s", "a.b || %s", "%s | c", "[%s]", "f(%s)", "a[?%s]"}[uni(t, 6, "lexCtx")], lexBroken[uni(t, len(lexBroken), "lexBroken")])
		case 4:
			if rapid.Bool().Draw(t, "edgeSpace") {
				// a valid expression with a character at its edge that Unicode, but not
				// JMESPath, regards as white space
				sp := []string{"\u00a0", "\u2003", "\v", "\f", "\u0085", "\u3000", "\u2028", "\ufeff", "\u200b", "\u1680"}[uni(t, 10, "sp")]
				f := fragCore
				inner := genExpr(t, doc, f)
				if rapid.Bool().Draw(t, "lead") {
					expr = sp + inner
				} else {
					expr = inner + sp
				}
			} else {
				expr = genBytes(t)
			}
		default:
			f := fragAll
			f.mismatch = 10
			expr = genExpr(t, doc, f)
		}
		var input string
		if uni(t, 8, "hardText") == 0 {
			// results that are (or contain) strings with characters every serialiser must escape or
			// pass through exactly: C0/C1 controls, DEL, quotes, backslashes, U+2028, a byte order
			// mark, astral characters; also as object keys
			s1, s2 := genHardString(t, "cliS1"), genHardString(t, "cliS2")
			if uni(t, 3, "lookalike") == 0 {
				s1 = hardDocStrings[uni(t, len(hardDocStrings), "cliLook1")]
				s2 = hardDocStrings[uni(t, len(hardDocStrings), "cliLook2")]
			}
			d := map[string]interface{}{"s": s1, "l": []interface{}{s2, s1}, "o": map[string]interface{}{s2: s1}, "n": hardDocNumbers[uni(t, len(hardDocNumbers), "cliNum")]}
			expr = []string{"s", "l", "o", "[s]", "{k: s}", "join('', l)", "to_string(s)", "keys(o)", "values(o)", "@", "l[0]", "reverse(s)", "n", "[n]", "to_string(n)", "to_string(@)", "s || l", "l[?@ == s]"}[uni(t, 18, "cliHardExpr")]
			c := withExpr(Case{Property: "C19", Kind: "cli"}, expr)
			c.Extra = map[string]interface{}{"input": ref.Canon(d), "channel": []string{"stdin", "file"}[uni(t, 2, "hardChannel")], "dashdash": false}
			run(t, c)
			return
		}
		if uni(t, 40, "hugeInput") == 0 {
			// one line of more than 64 KiB (line-oriented readers, fixed buffers)
			var sb strings.Builder
			if rapid.Bool().Draw(t, "hugeString") {
				sb.WriteString(`{"a":"`)
				// (also beyond 1 MiB and 4 MiB: a cap on what is read, a buffer sized once)
				sb.WriteString(strings.Repeat("x", []int{70000, 70000, 1<<20 + 100, 4<<20 + 7}[uni(t, 4, "hugeLen")]))
				sb.WriteString(`","b":[1,2]}`)
			} else {
				sb.WriteString(`{"a":[`)
				for i := 0; i < 14000; i++ {
					if i > 0 {
						sb.WriteByte(',')
					}
					sb.WriteString(strconv.Itoa(i % 1000))
				}
				sb.WriteString(`],"b":"y"}`)
			}
			expr = []string{"length(a)", "b", "a[-1]", "[length(a), b]", "type(a)"}[uni(t, 5, "hugeExpr")]
			c := withExpr(Case{Property: "C19", Kind: "cli"}, expr)
			c.Extra = map[string]interface{}{"input": sb.String(), "channel": []string{"stdin", "file"}[uni(t, 2, "hugeChannel")], "dashdash": false}
			run(t, c)
			return
		}
		switch rapid.IntRange(0, 9).Draw(t, "inputKind") {
		case 0, 1:
			input = cliBadInputs[rapid.IntRange(0, len(cliBadInputs)-1).Draw(t, "bad")]
		case 2:
			s := ref.Canon(doc)
			input = s[:rapid.IntRange(0, len(s)).Draw(t, "trunc")]
		case 3:
			b, _ := json.MarshalIndent(doc, "", "  ")
			input = "\n " + string(b) + " \n"
		default:
			input = ref.Canon(doc)
		}
		channel := []string{"stdin", "file"}[rapid.IntRange(0, 1).Draw(t, "channel")]
		c := withExpr(Case{Property: "C19", Kind: "cli"}, expr)
		c.Extra = map[string]interface{}{"input": input, "channel": channel, "dashdash": rapid.Bool().Draw(t, "dashdash")}
		if channel == "stdin" {
			switch uni(t, 12, "stdinKind") {
			case 0:
				c.Extra["chunked"] = true
			case 1:
				c.Extra["stdin_file_offset"] = true
			}
		}
		if !isValidUTF8(input) {
			c.Extra["input"] = ""
			c.Extra["input_b64"] = withExpr(Case{}, input).ExprB64
		}
		run(t, c)
	})
}

func isValidUTF8(s string) bool { return strings.ToValidUTF8(s, "�") == s }

var _ = jp.Search

func init() { predicates["hwequiv"] = predHWEquiv }

func hwDocValue() *hwDoc {
	in := &hwInner{Name: "n", Tags: []string{"x", "y", "z"}}
	return &hwDoc{Name: "d", Items: []*hwInner{in, {Name: "m2", Tags: []string{"p", "q"}}, nil, {Name: "m", Tags: []string{}}, {Name: "k", Tags: []string{"t"}}}, Inner: *in, Ptr: in,
		Nums: []float64{2, 1, 3, 0}, Strs: []string{"b", "a", "c"}}
}

// predHWEquiv: an expression on the hand-written struct document vs its generic JSON twin.
func predHWEquiv(c Case) (r Result) {
	expr := c.expr()
	doc := hwDocValue()
	twin, err := normalise(struct {
		Name  string
		Items []*hwInner
		Inner hwInner
		Ptr   *hwInner
		Nums  []float64
		Strs  []string
	}{doc.Name, doc.Items, doc.Inner, doc.Ptr, doc.Nums, doc.Strs})
	if err != nil {
		r.Discard = "HARNESS:normalise"
		r.Violation = err.Error()
		return
	}
	so, to := libSearch(expr, doc), libSearch(expr, twin)
	r.Nontrivial = true
	if so.Panic != nil {
		r.Violation = "Search panicked on struct/typed-slice data"
		r.Got = showOut(so)
		return
	}
	if to.Panic != nil {
		r.Discard = "generic-form-panics"
		return
	}
	if (so.Err != nil) != (to.Err != nil) {
		r.Violation = "struct form and generic JSON form disagree about failure"
		r.Expected, r.Got = "generic: "+showOut(to), "struct: "+showOut(so)
		return
	}
	if so.Err == nil {
		sn, err := normalise(so.Val)
		if err != nil || !reflect.DeepEqual(sn, to.Val) {
			r.Violation = "navigation on typed slices differs from the equivalent generic JSON document"
			r.Expected, r.Got = "generic: "+show(to.Val), "struct: "+show(sn)
		}
	}
	return
}

// TestC18Slices: index and slice parameters (window and 64-bit boundary values)
// on typed slices of strings, numbers, pointers and on nested typed slices.
func TestC18Slices(t *testing.T) {
	vals := []string{"", "0", "1", "-1", "2", "-2", "3", "-3", "4", "-4", "5", "-5", "-6", "9223372036854775807", "-9223372036854775807", "-9223372036854775808", "2147483648", "4611686018427387904"}
	fields := []string{"Strs", "Nums", "Items", "Inner.Tags", "Items[0].Tags", "Items[*].Tags"}
	n := 0
	for _, f := range fields {
		for _, a := range vals {
			for _, b := range vals {
				for _, c := range vals {
					e := f + "[" + a + ":" + b + ":" + c + "]"
					if f == "Items" {
						e += ".Name"
					}
					run(t, Case{Property: "C18", Kind: "hwequiv", Expr: e})
					n++
				}
			}
			if a != "" {
				run(t, Case{Property: "C18", Kind: "hwequiv", Expr: f + "[" + a + "]"})
				n++
			}
		}
	}
	// a nil element is a null element: the right-hand side is evaluated on it (length(null) is an error)
	for _, e := range []string{"Items[*].length(Name)", "Items[*].length(Tags)", "Items[*].[length(Name)]", "Items[*].{n: length(Name)}", "Items[:3].length(Name)", "Items[].length(Name)", "Items[?@].length(Name)", "Items[*].Name", "Items[*].[Name]", "Items[2].length(Name)", "Items[*].Tags[0]", "length(Items[2])", "Items[*] | [*].Name"} {
		run(t, Case{Property: "C18", Kind: "hwequiv", Expr: e})
		n++
	}
	// a slice (or projection) of a typed slice whose right-hand side slices another typed slice,
	// two and three levels deep, side by side and after pipes (buffers lent to one level and reused by the next)
	for _, e := range []string{"Items[:2].Tags[:1]", "Items[0:3].Tags[0:2]", "Items[1:].Tags[:1]", "Items[:2].Tags[1:]", "Items[:3].Tags[:1] | [0]", "Items[::1].Tags[::1]", "Items[:2].Name", "Items[:2].[Tags[:1], Tags[1:]]", "[Strs[:2], Strs[1:]]", "Strs[:2] | [@, @]",
		"Items[*].Tags[:1]", "Items[:2].Tags[*]", "Items[?Name].Tags[:1]", "Items[:2].Tags[]", "Items[:4].Tags[:2][:1]", "Items[::2].Tags[::-1]", "[Items[:1].Tags[:1], Items[2:].Tags[:1]]", "Items[:2].{t: Tags[:1], n: Name}", "Items[:3].Tags[:1][0]", "Nums[:2] | [Nums[1:], @]",
		"Items[0:2].Tags[0:1] | [*][0]", "Items[:2].Tags[:1] == Items[:2].Tags[:1]", "length(Items[:2].Tags[:1])", "Items[:2].Tags[:1] | length(@)", "map(&Tags[:1], Items[:2])", "Items[-2:].Tags[-1:]", "Strs[1:][:1]", "Strs[:2][1:]", "Nums[1:][1:][:1]"} {
		run(t, Case{Property: "C18", Kind: "hwequiv", Expr: e})
		n++
	}
	st := statsFor("C18")
	st.mu.Lock()
	st.Exhaustive["C18.typed-slices"] = fmt.Sprintf("%d typed-slice fields x %d^3 slice parameter triples (window and 64-bit boundary values) + indices: %d expressions, struct form vs generic form", len(fields), len(vals), n)
	st.mu.Unlock()
}

// ---------------------------------------------------------------------------
// C18 shape grid on a rich hand-written struct document

type rMember struct {
	Name string
	Age  float64
	Tags []string
	Ptr  *rMember
}
type rGroup struct {
	Title   string
	Members []*rMember
	Items   []rMember
	Vals    [][]float64
	Sub     *rGroup
	Flag    bool
}
type rDoc struct {
	Many      []rMember
	ManyPtr   []*rMember
	ManyNames []string
	Groups    []rGroup
	GroupPtrs []*rGroup
	One       rGroup
	Nil       *rGroup
	Names     []string
	Nums      []float64
}

func richDoc() *rDoc {
	m1 := &rMember{Name: "x", Age: 1, Tags: []string{"t1", "t2"}}
	m2 := &rMember{Name: "y", Age: 2, Tags: []string{}, Ptr: m1}
	m3 := &rMember{Name: "", Age: 0, Tags: []string{"t3"}}
	zero := &rMember{Tags: []string{}}
	m3.Ptr = zero
	g1 := rGroup{Title: "g1", Members: []*rMember{m1, nil, m2, nil, zero}, Items: []rMember{*m1, *m3}, Vals: [][]float64{{1, 2}, {}, {3}}, Flag: true}
	g2 := rGroup{Title: "g2", Members: []*rMember{}, Items: []rMember{}, Vals: [][]float64{}, Sub: &g1}
	g3 := rGroup{Title: "", Members: []*rMember{nil, m3}, Items: []rMember{*m2}, Vals: [][]float64{{4}}, Sub: &g2, Flag: true}
	var many []rMember
	var manyPtr []*rMember
	var manyNames []string
	for i := 0; i < 40; i++ {
		m := rMember{Name: "n" + strconv.Itoa(i%7), Age: float64(40 - i), Tags: []string{"t" + strconv.Itoa(i)}}
		if i%3 == 0 {
			m.Ptr = m1
		}
		many = append(many, m)
		if i%5 == 4 {
			manyPtr = append(manyPtr, nil)
		} else {
			mm := m
			manyPtr = append(manyPtr, &mm)
		}
		manyNames = append(manyNames, m.Name)
	}
	return &rDoc{Many: many, ManyPtr: manyPtr, ManyNames: manyNames, Groups: []rGroup{g1, g2, g3}, GroupPtrs: []*rGroup{&g3, nil, &g1}, One: g1, Names: []string{"b", "", "a"}, Nums: []float64{2, 0, 1}}
}

func init() { predicates["richequiv"] = predRichEquiv }

func predRichEquiv(c Case) (r Result) {
	expr := c.expr()
	doc := richDoc()
	twin, err := normalise(doc)
	if err != nil {
		r.Discard = "HARNESS:normalise"
		r.Violation = err.Error()
		return
	}
	so, to := libSearch(expr, doc), libSearch(expr, twin)
	if so.Panic != nil {
		r.Nontrivial = true
		r.Violation = "Search panicked on struct/pointer/typed-slice data"
		r.Got = showOut(so)
		return
	}
	if to.Panic != nil {
		r.Discard = "generic-form-panics"
		return
	}
	if (so.Err != nil) != (to.Err != nil) {
		r.Violation = "struct form and generic JSON form disagree about failure"
		r.Expected, r.Got = "generic: "+showOut(to), "struct: "+showOut(so)
		return
	}
	if so.Err != nil {
		r.class("both-error")
		return
	}
	sn, err := normalise(so.Val)
	if err != nil || !reflect.DeepEqual(sn, to.Val) {
		r.Violation = "navigation on struct/pointer/typed-slice data differs from the equivalent generic JSON document"
		r.Expected, r.Got = "generic: "+show(to.Val), "struct: "+show(sn)
		return
	}
	r.Nontrivial = to.Val != nil
	return
}

var richLHS = []string{"Many", "ManyPtr", "ManyNames", "Many[:17]", "ManyPtr[:16]", "Many[:15]", "Groups", "GroupPtrs", "One.Members", "One.Items", "Names", "Nums", "One.Vals", "Nil", "One.Sub", "Groups[2].Sub", "Groups[0].Members", "[Groups, GroupPtrs]", "Groups[*].Members", "GroupPtrs[*].Items", "@", "One"}
var richOps = []string{"", "[*]", "[]", "[?@]", "[?Name]", "[?Flag]", "[?Ptr]", "[?!Ptr]", "[?Ptr || Name]", "[?Ptr && Age]", "[?Members]", "[?!Sub]", "[?Title && Flag]", "[?Sub || Flag]", "[1:]", "[::-1]", "[*][*]", "[][]", "[*].Members[]", "[].Members", "[*].Members[*]", "[].Items[]", "[*].Vals[]", "[].Vals[][]", "[0]", "[-1]", "[1]"}
var richRHS = []string{"", ".Name", ".Ptr", ".Age", ".Title", ".Members", ".Members[0]", ".Members[1]", ".Members[0].Name", ".[Name]", ".{n: Name, t: Title}", ".Tags[0]", ".Members[].Name", ".Sub.Title", ".Sub.Sub.Members[]", ".Ptr.Name", ".[Members[]]", ".{m: Members[*].Name}", ".length(Members)", ".Items[*].Tags[]", ".[Ptr, Name]", ".Ptr.[Name]", ".[!Ptr, Ptr || Name, Ptr && Name]", ".Ptr.Ptr", ".[!@, @ && Name]"}
var richEnd = []string{"", " | length(@)", " | [0]", " | [*].[Name]", " | [*].{n: Name}", " | [?@]", " | [-1].Name", " | [][]"}

// TestC18Rich: navigational shape grid on a rich struct document (pointers with
// nils inside typed slices reached through projections, nested typed slices,
// pointer chains): struct form == generic JSON form.
func TestC18Rich(t *testing.T) {
	shard, nshards := envInt("VERIF_SHARD", 0), envInt("VERIF_NSHARDS", 1)
	n, k := 0, 0
	twinDoc, err := normalise(richDoc())
	if err != nil {
		t.Fatalf("HARNESS-ERROR: %v", err)
	}
	for _, l := range richLHS {
		for _, op := range richOps {
			for _, rh := range richRHS {
				for _, e := range richEnd {
					k++
					if k%nshards != shard {
						continue
					}
					expr := l + op + rh + e
					if strings.HasPrefix(expr, "@.") || strings.HasPrefix(expr, "@[") {
						expr = expr[1:]
						if strings.HasPrefix(expr, ".") {
							expr = expr[1:]
						}
					}
					if strings.HasSuffix(e, "length(@)") {
						// length() is in the property's domain for slices and strings only
						base := strings.TrimSuffix(expr, e)
						if base == "" {
							continue
						}
						o := libSearch(base, twinDoc)
						switch o.Val.(type) {
						case []interface{}, string:
						default:
							continue
						}
					}
					run(t, Case{Property: "C18", Kind: "richequiv", Expr: expr})
					n++
				}
			}
		}
	}
	st := statsFor("C18")
	st.mu.Lock()
	st.Exhaustive["C18.rich-grid"] = fmt.Sprintf("%d left-hand sides x %d navigation/projection chains x %d right-hand sides x %d terminators on a rich struct document (shard %d/%d: %d expressions), struct form vs generic form", len(richLHS), len(richOps), len(richRHS), len(richEnd), shard, nshards, n)
	st.mu.Unlock()
}

// ---------------------------------------------------------------------------
// C13 on struct documents: one compiled expression searched over documents of several
// different (run-time generated, hence anonymous) struct types in turn must agree with
// the one-shot Search every time.

func init() {
	predicates["structhistory"] = predStructHistory
	predicates["richpipe"] = predRichPipe
}

func predStructHistory(c Case) (r Result) {
	expr := c.expr()
	specs, _ := c.Extra["specs"].([]interface{})
	datas, _ := c.Extra["datas"].([]interface{})
	var docs []interface{}
	for i := range specs {
		var v interface{}
		if p := safely(func() { v = buildValue(specs[i].(map[string]interface{}), datas[i]).Interface() }); p != nil {
			r.Discard = "HARNESS:cannot-build-value"
			r.Violation = fmt.Sprint(p)
			return
		}
		docs = append(docs, v)
	}
	comp, cerr, pan := libCompile(expr)
	if pan != nil || cerr != nil {
		r.Discard = "does-not-compile"
		return
	}
	r.Nontrivial = len(docs) >= 2
	for round := 0; round < 2; round++ {
		for i, d := range docs {
			var got libOut
			got.Panic = safely(func() { got.Val, got.Err = comp.Search(d) })
			one := libSearch(expr, d)
			if got.Panic != nil || one.Panic != nil {
				r.Violation = "Search panicked on struct data"
				r.Got = showOut(got) + " / " + showOut(one)
				return
			}
			if (got.Err != nil) != (one.Err != nil) {
				r.Violation = fmt.Sprintf("compiled expression reused across documents disagrees with the one-shot Search about failure (document %d, round %d)", i, round)
				r.Expected, r.Got = showOut(one), showOut(got)
				return
			}
			if got.Err == nil {
				a, e1 := normalise(got.Val)
				b, e2 := normalise(one.Val)
				if e1 != nil || e2 != nil || !reflect.DeepEqual(a, b) {
					r.Violation = fmt.Sprintf("the result of a compiled expression depends on the documents it searched before (document %d, round %d)", i, round)
					r.Expected, r.Got = "one-shot: "+show(b), "reused compiled: "+show(a)
					return
				}
			}
		}
	}
	return
}

func TestC13Structs(t *testing.T) {
	rapid.Check(t, func(t *rapid.T) {
		k := rapid.IntRange(2, 4).Draw(t, "docs")
		var specs, datas []interface{}
		var firstTwin interface{}
		for i := 0; i < k; i++ {
			spec := genStructSpec(t, 0)
			data := genData(t, spec)
			specs = append(specs, spec)
			datas = append(datas, data)
			if i == 0 {
				var gv interface{}
				if p := safely(func() { gv = buildValue(spec, data).Interface() }); p != nil {
					t.Fatalf("HARNESS-ERROR: %v", p)
				}
				firstTwin, _ = normalise(gv)
			}
		}
		f := fragNav
		expr := genExpr(t, firstTwin, f)
		run(t, Case{Property: "C13", Kind: "structhistory", Expr: expr, Extra: map[string]interface{}{"specs": specs, "datas": datas}})
	})
}

// predRichPipe: the pipe law on the rich struct document.
func predRichPipe(c Case) (r Result) {
	a := c.expr()
	b := c.Extra["b"].(string)
	doc := richDoc()
	whole := libSearch("("+a+") | ("+b+")", doc)
	s1 := libSearch(a, doc)
	if whole.Panic != nil || s1.Panic != nil {
		r.Violation = "Search panicked on struct data"
		r.Got = showOut(whole) + " / " + showOut(s1)
		return
	}
	var s2 libOut
	if s1.Err == nil {
		s2 = libSearch(b, s1.Val)
		if s2.Panic != nil {
			r.Violation = "Search panicked on the intermediate value"
			r.Got = showOut(s2)
			return
		}
	}
	splitErr := s1.Err != nil || s2.Err != nil
	if (whole.Err != nil) != splitErr {
		r.Violation = "'A | B' is an error exactly when one of the two steps is: violated on struct data"
		r.Expected, r.Got = fmt.Sprintf("split: step1=%s step2=%s", showOut(s1), showOut(s2)), "composed: "+showOut(whole)
		return
	}
	if whole.Err == nil {
		x, e1 := normalise(whole.Val)
		y, e2 := normalise(s2.Val)
		if e1 != nil || e2 != nil || !reflect.DeepEqual(x, y) {
			r.Violation = "Search('A | B', d) differs from Search(B, Search(A, d)) on struct data"
			r.Expected, r.Got = "split: "+show(y), "composed: "+show(x)
			return
		}
		r.Nontrivial = s1.Val != nil
	}
	return
}

var richPipeRHS = []string{"sort(@)", "max(@)", "min(@)", "join(',', @)", "sum(@)", "avg(@)", "@ == `[\"b\",\"\",\"a\"]`", "@ != `[2,0,1]`", "length(@)", "[0]", "[-1]", "reverse(@)", "to_array(@)", "[*]", "[]", "type(@)", "not_null(@)", "@", "[?@]", "contains(@, 'a')", "sort_by(@, &@)", "[*].Name", "map(&@, @)", "to_string(@)", "[::-1]", "[@, @]"}

func TestC15Structs(t *testing.T) {
	n := 0
	for _, l := range richLHS {
		for _, op := range richOps {
			for ri, rh := range []string{"", ".Name", ".Members", ".Tags", ".Members[].Name", ".Vals[]", ".Title"} {
				for bi, b := range richPipeRHS {
					if (ri+bi)%2 == 1 {
						continue
					}
					a := l + op + rh
					if strings.HasPrefix(a, "@.") || strings.HasPrefix(a, "@[") {
						a = strings.TrimPrefix(a[1:], ".")
					}
					run(t, Case{Property: "C15", Kind: "richpipe", Expr: a, Extra: map[string]interface{}{"b": b}})
					n++
				}
			}
		}
	}
	st := statsFor("C15")
	st.mu.Lock()
	st.Exhaustive["C15.struct-pipes"] = fmt.Sprintf("pipe law on a Go struct document: %d left expressions A x %d right expressions B (half of the cells): %d pairs", len(richLHS)*len(richOps)*7, len(richPipeRHS), n)
	st.mu.Unlock()
}

// ---------------------------------------------------------------------------
// C11 on typed documents: a document is whatever Search accepts, and typed slices and
// structs take separate (reflection) code paths through every projection kind.

func init() { predicates["hwstrict"] = predHWStrict }

// predHWStrict: Expr on the hand-written struct document. The reference model, run on the
// generic twin, says whether an error must surface.
func predHWStrict(c Case) (r Result) {
	// a context that hands a typed slice to a function (other than length) is outside the
	// equivalence C18 states: there only "an error that must surface does surface" is judged
	fnCtx := c.Extra["fn"] == true
	if !fnCtx {
		r = predHWEquiv(c)
		if r.Violation != "" || r.Discard != "" {
			return
		}
	}
	expr := c.expr()
	doc := hwDocValue()
	twin, _ := normalise(struct {
		Name  string
		Items []*hwInner
		Inner hwInner
		Ptr   *hwInner
		Nums  []float64
		Strs  []string
	}{doc.Name, doc.Items, doc.Inner, doc.Ptr, doc.Nums, doc.Strs})
	n, st, perr := ref.ParseText(expr)
	if perr != nil || st != ref.LexOK {
		r.Discard = "generator:not-a-sentence"
		return
	}
	ev := &ref.Ev{}
	_, werr := ev.Eval(n, twin)
	if ev.Ambiguous {
		r.Discard = "ambiguous:" + ev.Why
		return
	}
	r.Nontrivial = werr != nil
	o := libSearch(expr, doc)
	if werr != nil {
		r.class("typed.error-must-surface")
		if o.Panic != nil || o.Err == nil {
			r.Violation = "an error raised by an evaluated sub-expression was swallowed on a typed (struct/slice) document"
			r.Expected, r.Got = "error ("+werr.Error()+")", showOut(o)
			return
		}
		if o.Val != nil {
			r.Violation = "Search returned a value together with the error"
			r.Got = show(o.Val)
		}
	} else {
		r.class("typed.no-error")
		if o.Err != nil && !fnCtx {
			r.Violation = "Search fails on a typed document where the specification gives a value"
			r.Got = showOut(o)
		}
	}
	return
}

var hwStrictCtx = []string{"Nums[*].%s", "Nums[?@ > `0`].%s", "Nums[?@ > `9`].%s", "Nums[1:].%s", "Nums[::-1].%s", "Nums[].%s", "Strs[*].%s", "Strs[?@ == 'a'].%s", "Strs[?@ == 'q'].%s", "Strs[:2].%s", "Strs[].%s",
	"Items[*].%s", "Items[?Name].%s", "Items[?Name == 'k'].%s", "Items[?Name == 'q'].%s", "Items[2:].%s", "Items[].%s", "Items[*].Tags[].%s", "Items[*].Tags[*].%s", "Inner.Tags[*].%s", "Inner.Tags[?@ != 'q'].%s", "Items[0].Tags[1:].%s",
	"Items[?Tags].Tags[0:1].%s", "Nums[?%s]", "Strs[?%s]", "Items[?%s]", "Inner.Tags[?%s]", "map(&%s, Nums)", "map(&%s, Strs)", "map(&%s, Items)", "sort_by(Strs, &%s)", "sort_by(Nums, &%s)", "max_by(Nums, &%s)", "min_by(Strs, &%s)",
	"sort_by(Items[?Name], &%s)", "reverse(Nums)[*].%s", "sort(Strs)[?@].%s", "Nums[*] | %s", "[Nums, %s]", "{a: Strs, b: %s}", "length(Nums) && %s", "contains(Strs, %s)", "join(%s, Strs)", "Items[*].[%s]", "Items[*].{a: %s}",
	"Items[*].[Name, %s]", "Ptr.Tags[*].%s", "Ptr.%s", "Inner.%s", "Items[0].%s", "Items[1].%s", "NilPtr.%s", "Items[*].Tags[?%s]", "Nums[*].[%s]", "Nums[?@ == `3`] | %s", "Items[?Name][].%s", "Nums[:0].%s", "Strs[5:].%s"}

var hwSeeds = []string{"abs('a')", "abs(@)", "length(`1`)", "nosuch(@)", "abs()", "`[1]`[::0]", "sort_by(`[1,\"a\"]`, &@)", "to_string(&@)", "merge(`{}`, `1`)", "abs(Name)", "length(Name) && abs(Name)", "not_null(Tags, `1`)[0] && abs('a')",
	"starts_with(@, 'a')", "Tags[::0]", "join(',', @)", "max_by(`[[1]]`, &@)"}

// TestC11Typed: erroring sub-expressions under every projection kind, filter, function and
// multi-select over typed slices of numbers, strings, pointers (with a nil element) and structs.
func TestC11Typed(t *testing.T) {
	n := 0
	for _, ctx := range hwStrictCtx {
		for _, s := range hwSeeds {
			fn := false
			for _, f := range []string{"map(", "sort_by(", "max_by(", "min_by(", "reverse(", "sort(", "contains(", "join("} {
				fn = fn || strings.Contains(ctx, f)
			}
			run(t, Case{Property: "C11", Kind: "hwstrict", Expr: fill(ctx, s), Extra: map[string]interface{}{"seed": s, "fn": fn}})
			n++
			// the same, one level further down
			run(t, Case{Property: "C11", Kind: "hwstrict", Expr: fill(ctx, "[`1`, "+s+"][1]"), Extra: map[string]interface{}{"seed": s, "fn": fn}})
			n++
		}
	}
	st := statsFor("C11")
	st.mu.Lock()
	st.Exhaustive["C11.typed"] = fmt.Sprintf("%d contexts over typed slices/structs x %d erroring or element-dependent seeds x 2 depths: %d expressions on the hand-written struct document, judged by the reference model on its generic twin", len(hwStrictCtx), len(hwSeeds), n)
	st.mu.Unlock()
}

#!/bin/bash
# Offline setup: warm the Go build cache for the harness and run the oracle calibration.
set -e
cd "$(dirname "$0")"
export GOFLAGS=-mod=mod GOPROXY=off GOSUMDB=off GOTOOLCHAIN=local
mkdir -p .work evidence replays
cd harness
sed "s#@REPO@#${VERIF_REPO:-/repo}#" go.mod.tmpl > ../.work/setup-go.mod
cp go.sum ../.work/setup-go.sum
go test -c -tags verif -modfile=../.work/setup-go.mod -o ../.work/setup-harness.test . 
go test -c -race -tags verif -modfile=../.work/setup-go.mod -o ../.work/setup-harness-race.test . || echo "warning: race build failed"
VERIF_CFG_LEN=5 go test -modfile=../.work/setup-go.mod -count=1 ./ref/
rm -f ../.work/setup-*
echo "setup ok"

#!/bin/bash
# Runs the repository's pinned baseline (guard OFF: no build tag) and compares
# the set of passing tests with /root/.vp/BASELINE.json (stable_pass).
# usage: tools/baseline.sh [repo-dir]
set -u
REPO="${1:-/repo}"
MODS="${2:-. ./internal/testify}"
export GOFLAGS=-mod=mod GOPROXY=off GOSUMDB=off GOTOOLCHAIN=local
OUT=$(mktemp)
for m in $MODS; do
  (cd "$REPO/$m" && go test -mod=mod -json -vet=off -count=1 -timeout 25m ./...) >> "$OUT" 2>&1
done
python3 - "$OUT" "$MODS" <<'PY'
import json, sys
passed, failed = set(), set()
for line in open(sys.argv[1], errors="replace"):
    try: e = json.loads(line)
    except Exception: continue
    if e.get("Test") and e.get("Action") in ("pass", "fail"):
        (passed if e["Action"] == "pass" else failed).add(e["Package"] + "::" + e["Test"])
try:
    base = set(json.load(open("/root/.vp/BASELINE.json"))["stable_pass"])
    if sys.argv[2].strip() == ".":
        base = set(b for b in base if b.startswith("github.com/jmespath/go-jmespath::") or b.startswith("github.com/jmespath/go-jmespath/cmd") or b.startswith("github.com/jmespath/go-jmespath/fuzz"))
except Exception:
    base = None
print("passed=%d failed=%d" % (len(passed), len(failed)))
if base is not None:
    missing = sorted(base - passed)
    print("baseline stable_pass=%d missing=%d" % (len(base), len(missing)))
    for m in missing[:20]: print("MISSING", m)
    newfail = sorted(f for f in failed if f in base)
    print("failures outside stable_pass (pre-existing, ignored): %d" % len([f for f in failed if f not in base]))
    sys.exit(1 if (missing or newfail) else 0)
sys.exit(1 if failed else 0)
PY
rc=$?
rm -f "$OUT"
(cd "$REPO" && git checkout -q -- go.sum 2>/dev/null || true)
exit $rc

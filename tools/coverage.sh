#!/bin/bash
# Measures which basic blocks of the library the harness executes (statement coverage of
# /repo by the generators, not of the harness itself). Not a check: a diagnostic that tells
# whether a gap is one of code never reached or of value combinations never tried.
# Usage: tools/coverage.sh [repo] [rapid-checks-per-test]     (scratch files under /tmp, removed at the end)
set -e
REPO=${1:-/repo}
N=${2:-3000}
export GOFLAGS=-mod=mod GOPROXY=off GOSUMDB=off GOTOOLCHAIN=local
W=$(mktemp -d /tmp/verif-cov-XXXXXX)
trap 'rm -rf "$W"' EXIT
H=$(cd "$(dirname "$0")/../harness" && pwd)
sed "s#@REPO@#$REPO#" "$H/go.mod.tmpl" > "$W/go.mod"
cp "$H/go.sum" "$W/go.sum"
(cd "$H" && go test -c -tags verif -modfile="$W/go.mod" -cover -coverpkg=github.com/jmespath/go-jmespath -o "$W/h.test" .)
export VERIF_CORPUS_DIR="$H/corpus" VERIF_REPLAY_DIR="$W" VERIF_STATS_OUT="$W/stats.json" VERIF_NO_POISON=
i=0
for t in $(cd "$H" && grep -ho '^func Test[A-Za-z0-9_]*' *_test.go | sed 's/func //' | grep -v 'Replay\|KnownFindings\|C19\|C12\|Scaling\|Enum\|Sizes\|Depth\|Runs\|SizeSweep'); do
  i=$((i+1))
  (cd "$W" && timeout 600 ./h.test -test.run "^$t\$" -rapid.checks=$N -rapid.seed=$i -rapid.nofailfile -test.coverprofile="$W/p$i.out" >/dev/null 2>&1) || true
done
python3 - "$W" <<'EOF'
import glob, collections, sys
cov = collections.defaultdict(int)
for f in glob.glob(sys.argv[1] + "/p*.out"):
    for l in open(f):
        if l.startswith("mode:"):
            continue
        blk, n, c = l.rsplit(" ", 2)
        cov[blk] += int(c)
unc = sorted(b for b, c in cov.items() if c == 0)
print("%d basic blocks, %d executed, %d never executed:" % (len(cov), len(cov) - len(unc), len(unc)))
for b in unc:
    print("  " + b)
EOF

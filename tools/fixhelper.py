import subprocess
def edit(path, old, new, count=1):
    s=open(path).read()
    assert s.count(old)==count, (path, old, s.count(old))
    s=s.replace(old,new)
    open(path,'w').write(s)
def commit(msg):
    out=subprocess.check_output(['gofmt','-l','lexer.go','parser.go','interpreter.go','functions.go','util.go'],text=True)
    assert out.strip()=="", out
    subprocess.check_call(['go','build','./...'])
    subprocess.check_call(['go','vet','.'])
    r=subprocess.run(['/verif/tools/baseline.sh'],capture_output=True,text=True)
    print(r.stdout.strip().splitlines()[-2:], r.returncode)
    assert r.returncode==0, r.stdout
    subprocess.check_call(['git','commit','-q','-am',msg])

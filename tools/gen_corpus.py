#!/usr/bin/env python3
"""Writes harness/corpus/<property>/*.json: the minimal reproduction of every defect that was
repaired by a 'fix:' commit (replayed at the start of every run: the seconds-long replay tier)."""
import json, os
ROOT = os.path.join(os.path.dirname(os.path.dirname(os.path.abspath(__file__))), "harness", "corpus")
n = 0
def case(prop, name, kind, expr=None, doc=None, extra=None):
    global n
    d = os.path.join(ROOT, prop)
    os.makedirs(d, exist_ok=True)
    c = {"property": prop, "kind": kind}
    if expr is not None: c["expr"] = expr
    if doc is not None: c["doc"] = doc
    if extra is not None: c["extra"] = extra
    json.dump(c, open(os.path.join(d, name + ".json"), "w"), indent=1, ensure_ascii=False)
    n += 1

# L1
case("C05", "L1-u0080", "robust", "a\u0080", "null"); case("C17", "L1-u0080", "contract", "a\u0080"); case("C14", "L1-u0080", "unquoted", "a\u0080")
# P1
for i, e in enumerate(["[0", "[:", "[1:", "*[0", "a|[0", "a | [1:"]):
    case("C04", "P1-%d" % i, "lang", e); case("C17", "P1-%d" % i, "contract", e)
# P2 P3 P4 P5
for i, e in enumerate(["f(a b)", "f(a,)", "abs(a,)", "f(a, b c)"]): case("C04", "P2-%d" % i, "lang", e)
for i, e in enumerate(["{a: b c: d}", "{a:b \"c\":d}"]): case("C04", "P3-%d" % i, "lang", e)
for i, e in enumerate(["a[:1 2]", "a[0:1:2:]", "a[1:2 3:4]", "a[:::]", "[1 2:]"]): case("C04", "P4-%d" % i, "lang", e)
for i, e in enumerate(["@(x)", "`1`(x)", "[a](x)", "'a'(x)", "(a)(x)", "a(x)(y)", "a[0](x)"]):
    case("C04", "P5-%d" % i, "lang", e); case("C05", "P5-%d" % i, "robust", e, '{"a":1,"x":2}')
# P8
doc8 = '{"a":{"x":{"b":{"c":1}},"y":{"b":{"c":2}}}}'
case("C02", "P8-dotstar", "diff", "a.*.b.c", doc8); case("C03", "P8-dotstar", "parse", "a.*.b.c"); case("C03", "P8-dotstar-2", "parse", "a.*.b.c.d || e")
case("C02", "P8-dotstar-filter", "diff", "a.*.b[?c].c", '{"a":{"x":{"b":[{"c":1},{"c":0},{}]}}}')
# I1
for i, e in enumerate(['abs(`"a"`)[]', 'abs(`"a"`)[?@]', 'abs(`"a"`).*', 'nosuch(@)[].a', '`[1,2]`[::0].*']):
    case("C11", "I1-%d" % i, "strict", e, '{"k":1}', {"seed": e.split(")")[0] + ")" if e.startswith(("abs", "nosuch")) else "`[1,2]`[::0]", "strict": True})
    case("C02", "I1-%d" % i, "diff", e, '{"k":1}')
# I2
case("C02", "I2-phantom", "diff", "*.type(@)", '{"a":1,"b":null}'); case("C02", "I2-phantom-2", "diff", "*.[@]", '{"a":1}'); case("C01", "I2-phantom-ms", "diff", "[a, b]", '{"a":1}')
# I3
case("C05", "I3-overflow", "robust", "[1::9223372036854775807]", "[1,2,3]")
case("C08", "I3-overflow", "slice", "[1::9223372036854775807]", None, {"len": 3, "a": "1", "b": "_", "c": "9223372036854775807", "carrier": "root"})
case("C08", "I3-overflow-neg", "slice", "[::-9223372036854775808]", None, {"len": 3, "a": "_", "b": "_", "c": "-9223372036854775808", "carrier": "field"})
# I4 (typed nil pointers)
inner = {"k": "struct", "f": [{"n": "Name", "t": {"k": "string"}}]}
spec = {"k": "struct", "f": [{"n": "Name", "t": {"k": "string"}}, {"n": "Ptr", "t": {"k": "ptr", "e": inner}}, {"n": "Items", "t": {"k": "slice", "e": {"k": "ptr", "e": inner}}}]}
data = {"Name": "d", "Ptr": None, "Items": [{"Name": "x"}, None]}
for i, e in enumerate(["Ptr.[Name]", "Ptr.{a: Name}", "Items[*]", "Items[*].[Name]", "Ptr || Name", "[Ptr][0]", "Items[1].[Name]", "Items[?@]", "Items[]", "Items[1:]"]):
    case("C18", "I4-%d" % i, "struct", e, None, {"spec": spec, "data": data, "mode": "equiv", "rootptr": i % 2 == 0})
# F7 typed slices into functions
spec7 = {"k": "struct", "f": [{"n": "Tags", "t": {"k": "slice", "e": {"k": "string"}}}, {"n": "Vals", "t": {"k": "slice", "e": {"k": "float64"}}}, {"n": "Items", "t": {"k": "slice", "e": inner}}]}
data7 = {"Tags": ["b", "a"], "Vals": [2, 1], "Items": [{"Name": "y"}, {"Name": "x"}]}
for i, e in enumerate(["reverse(Tags)", "contains(Tags, 'a')", "map(&@, Vals)", "sort_by(Items, &Name)", "max_by(Items, &Name)", "min_by(Items, &Name)", "merge(@)", "reverse(Items)"]):
    case("C18", "F7-%d" % i, "struct", e, None, {"spec": spec7, "data": data7, "mode": "nopanic", "rootptr": False})
# F1
for i, e in enumerate(["merge('a')", "merge(`{}`, `1`)", "merge(`{}`, `{}`, `[]`)", "not_null(&a)"]):
    case("C10", "F1-%d" % i, "diff", e, "null"); case("C05", "F1-%d" % i, "robust", e, "null")
# F2
for i, e in enumerate(["contains(`[[1]]`, `[1]`)", "contains(`[{\"a\":1}]`, `{\"a\":1}`)", "contains(`[[1],[2]]`, `[3]`)"]):
    case("C09", "F2-%d" % i, "diff", e, "null"); case("C05", "F2-%d" % i, "robust", e, "null")
# F3
case("C06", "F3-sortby", "nomutate", "sort_by(@, &@)", "[3,1,2]"); case("C06", "F3-sortby-err", "nomutate", "sort_by(@, &@)", '[3,1,2,"a"]')
case("C06", "F3-sortby-nested", "nomutate", "a[*].sort_by(@, &b)", '{"a":[[{"b":2},{"b":1}]]}')
hist = [["doc", "[3,1,2]"], ["compile", "`[3,1,2]` | [@[0], sort_by(@, &@)[0]]"], ["search", "0", "0"], ["search", "0", "0"]]
case("C13", "F3-literal-history", "history", None, None, {"history": hist})
hist2 = [["doc", "[3,1,2]"], ["compile", "sort_by(@, &@)"], ["compile", "[0]"], ["search", "0", "0"], ["search", "1", "0"]]
case("C13", "F3-doc-history", "history", None, None, {"history": hist2})
case("C15", "F3-pipe", "pipe", "`[3,1,2]`", "null", {"b": "[@[0], sort_by(@, &@)[0], @[0]]"})
case("C15", "F3-subst", "subst", "sort_by(@, &@)", "[3,1,2]", {"ctx": "[%s, @]"})
# F4 F5
case("C09", "F4-avg-empty", "diff", "avg(`[]`)", "null"); case("C16", "F4-avg-empty", "jsondata", "avg(`[]`)", "null"); case("C16", "F4-avg-empty-field", "jsondata", "avg(a)", '{"a":[]}')
for i, s in enumerate(["inf", "nan", "Infinity", "-inf", "+Inf", "NaN"]):
    case("C09", "F5-%d" % i, "tonumber", None, None, {"s": s}); case("C16", "F5-%d" % i, "jsondata", "to_number('%s')" % s, "null")
# F6
for i, e in enumerate(["sort_by(`[1]`, &`{}`)", "sort_by(`[{\"a\":null}]`, &a)", "max_by(`[1]`, &`null`)", "min_by(`[[1]]`, &@)", "max_by(`[1]`, &abs(`\"a\"`))"]):
    case("C10", "F6-%d" % i, "diff", e, "null")
# F8
for i, e in enumerate(["to_string(&a)", "to_array(&a)", "not_null(&a)", "contains(`[1]`, &a)", "type(&a)", "to_number(&@)", "not_null(`null`, &a)"]):
    case("C10", "F8-%d" % i, "diff", e, "null")
case("C16", "F8-tostring", "jsondata", "to_array(&a)", "null")
# I6 (documents of harness/hardening_test.go exoDocs(): 0 = struct with a **T field, 5 = pointer to an array)
for prop in ("C05", "C18"):
    case(prop, "I6-ptr-to-ptr", "exotic-doc", "PP.Name", None, {"doc": 0}); case(prop, "I6-ptr-to-array", "exotic-doc", "Colors.red", None, {"doc": 5})
    case(prop, "I6-ptr-to-ptr-nested", "exotic-doc", "[PP.Name, Arr]", None, {"doc": 1})
print("wrote", n, "corpus cases")

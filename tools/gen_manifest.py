#!/usr/bin/env python3
"""Regenerates /verif/MANIFEST.json from tools/plan.py (single source of truth)."""
import json, os, sys
sys.path.insert(0, os.path.dirname(os.path.abspath(__file__)))
import plan
VERIF = os.path.dirname(os.path.dirname(os.path.abspath(__file__)))
props = [json.loads(l)["id"] for l in open(os.path.join(VERIF, "properties.jsonl"))]
checks = []
for pid in props:
    if pid not in plan.PROPS:
        continue
    p = plan.PROPS[pid]
    checks.append({
        "property_id": pid,
        "quick_cmd": "./check %s --tier quick" % pid,
        "thorough_cmd": "./check %s --tier thorough" % pid,
        "evidence_file": "/verif/evidence/%s.json" % pid,
        "replay_cmd_template": "./check %s --replay {path}" % pid,
        "engine": p.get("engine", "rapid+reference-model"),
        "level_claimed": {"category": "exploration", "text": p["level_text"], "design_ref": "DESIGN.md section 7, " + pid},
        "level_note": p["level_note"],
        "technique": p["technique"],
    })
na = [{"property_id": pid, "reason": plan.NOT_APPLICABLE.get(pid, "check not built yet in this session; see DESIGN.md")} for pid in props if pid not in plan.PROPS]
m = {
    "version": 1,
    "setup_cmd": "cd /verif && ./setup.sh",
    "hooks": {
        "guard": "verif",
        "enable": "Go build tag: every check compiles /repo's working tree with 'go test -c -tags verif', which adds verif_hooks.go (funcs VerifDumpAST, VerifFunctionNames); without the tag the file is not compiled",
        "baseline_off_cmd": "/verif/tools/baseline.sh /repo",
        "source_commits": plan.HOOK_COMMITS,
        "add_only": True,
    },
    "engines": [
        {"name": "rapid+reference-model", "path": "/verif/harness", "serves_properties": [c["property_id"] for c in checks],
         "kind_free_text": "property-based testing (pgregory.net/rapid v1.3.0) and exhaustive small-scope enumeration against an independent reference model of JMESPath (harness/ref), metamorphic relations, round trips and invariants; native go fuzzing in thorough tiers where stated"},
    ],
    "checks": checks,
    "not_applicable": na,
    "notes": plan.NOTES,
}
json.dump(m, open(os.path.join(VERIF, "MANIFEST.json"), "w"), indent=1)
print("wrote MANIFEST.json with %d checks, %d not_applicable" % (len(checks), len(na)))

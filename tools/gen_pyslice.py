#!/usr/bin/env python3
"""Generates harness/testdata/pyslice_golden.txt: what CPython's extended slicing selects.
Line format: <len> <start|_> <stop|_> <step|_> <comma separated indices | E>
E marks step 0 (ValueError in Python).  Run once; the file is committed and is
used (a) to calibrate the reference slice model and (b) directly as the oracle of C08."""
import sys
def fmt(v): return "_" if v is None else str(v)
out = []
def emit(n, a, b, c):
    try:
        idx = list(range(n))[slice(a, b, c)]
        r = ",".join(map(str, idx)) if idx else "-"
    except ValueError:
        r = "E"
    out.append("%d %s %s %s %s" % (n, fmt(a), fmt(b), fmt(c), r))
# exhaustive window
for n in range(0, 9):
    vals = [None] + list(range(-n - 2, n + 3))
    for a in vals:
        for b in vals:
            for c in vals:
                emit(n, a, b, c)
# boundary grid
for n in range(0, 5):
    g = [None, 0, 1, -1, 2, -2, n, -n, 2**31, -2**31, 2**62, -2**62, 2**63 - 1, -(2**63 - 1), -2**63]
    g2 = []
    for v in g:
        if v not in g2: g2.append(v)
    for a in g2:
        for b in g2:
            for c in g2:
                emit(n, a, b, c)
sys.stdout.write("\n".join(out) + "\n")

#!/usr/bin/env python3
"""Sensitivity experiments (DESIGN.md section 9): apply one small edit to a scratch copy of
/repo, require that it compiles and passes the pinned baseline, then require that the quick
check of the targeted property exits 1. Usage:

    tools/mutants.py [--only ID[,ID]] [--jobs N] [--tier quick]

Scratch copies live under /tmp/verif-mut-* and are removed after each experiment.
Results are appended to /verif/sensitivity/results.jsonl (one line per experiment)."""
import argparse, json, os, shutil, subprocess, sys, time, tempfile
from concurrent.futures import ThreadPoolExecutor

VERIF = os.path.dirname(os.path.dirname(os.path.abspath(__file__)))
sys.path.insert(0, os.path.join(VERIF, "tools"))
from mutant_catalogue import MUTANTS  # noqa


def sh(cmd, **kw):
    return subprocess.run(cmd, stdout=subprocess.PIPE, stderr=subprocess.STDOUT, text=True, **kw)


def run_one(m, tier):
    t0 = time.time()
    d = tempfile.mkdtemp(prefix="verif-mut-%s-" % m["id"], dir="/tmp")
    res = {"id": m["id"], "props": m["props"], "desc": m["desc"]}
    try:
        sh(["git", "-C", "/repo", "worktree", "prune"])
        shutil.rmtree(d)
        shutil.copytree("/repo", d, ignore=shutil.ignore_patterns(".git"))
        for (path, old, new) in m["edits"]:
            p = os.path.join(d, path)
            s = open(p).read()
            if s.count(old) != 1:
                res["status"] = "bad-mutant: pattern occurs %d times in %s" % (s.count(old), path)
                return res
            open(p, "w").write(s.replace(old, new))
        env = dict(os.environ, GOFLAGS="-mod=mod", GOPROXY="off", GOSUMDB="off", GOTOOLCHAIN="local")
        b = sh(["go", "build", "./..."], cwd=d, env=env)
        if b.returncode != 0:
            res["status"] = "does-not-compile"
            res["detail"] = b.stdout[-500:]
            return res
        b = sh([os.path.join(VERIF, "tools", "baseline.sh"), d, "."])
        if b.returncode != 0:
            res["status"] = "killed-by-baseline"
            res["detail"] = b.stdout[-300:]
            return res
        res["checks"] = {}
        killed = False
        for p in m["props"]:
            env2 = dict(os.environ, VERIF_REPO=d, VERIF_WORKERS="8")
            t1 = time.time()
            c = sh([os.path.join(VERIF, "check"), p, "--tier", tier], cwd=VERIF, env=env2)
            viol = [l for l in c.stdout.splitlines() if l.startswith("VIOLATION")]
            cases = [l for l in c.stdout.splitlines() if l.strip().startswith("case:")]
            res["checks"][p] = {"rc": c.returncode, "wall": round(time.time() - t1, 1), "first_case": (cases[0][:300] if cases else "")}
            if c.returncode == 1 and viol:
                killed = True
            elif c.returncode == 2:
                res["checks"][p]["harness_error"] = c.stdout[-800:]
        res["status"] = "killed" if killed else "SURVIVED"
        return res
    finally:
        shutil.rmtree(d, ignore_errors=True)
        res["wall"] = round(time.time() - t0, 1)
        # replays produced by experiments are not findings: remove them
        for f in os.listdir(os.path.join(VERIF, "replays")):
            pass


def main():
    ap = argparse.ArgumentParser()
    ap.add_argument("--only")
    ap.add_argument("--jobs", type=int, default=3)
    ap.add_argument("--tier", default="quick")
    a = ap.parse_args()
    ms = MUTANTS
    if a.only:
        ids = set(a.only.split(","))
        ms = [m for m in ms if m["id"] in ids or any(p in ids for p in m["props"])]
    os.makedirs(os.path.join(VERIF, "sensitivity"), exist_ok=True)
    before = set(os.listdir(os.path.join(VERIF, "replays")))
    out = open(os.path.join(VERIF, "sensitivity", "results.jsonl"), "a")
    with ThreadPoolExecutor(max_workers=a.jobs) as ex:
        for r in ex.map(lambda m: run_one(m, a.tier), ms):
            out.write(json.dumps(r) + "\n")
            out.flush()
            print("%-10s %-28s %s  %s" % (r["id"], ",".join(r["props"]), r["status"], {k: (v["rc"], v["wall"]) for k, v in r.get("checks", {}).items()}), flush=True)
            if r["status"] not in ("killed",):
                print("     ", r.get("detail", "")[:300].replace("\n", " | "), flush=True)
    # remove replay files created by the experiments
    for f in set(os.listdir(os.path.join(VERIF, "replays"))) - before:
        os.remove(os.path.join(VERIF, "replays", f))


if __name__ == "__main__":
    main()

"""Per-property job plans for ./check (what runs in the quick and thorough tiers)."""

def rapid(test, checks, shards=1, **kw):
    d = {"test": test, "checks": checks, "shards": shards}
    d.update(kw)
    return d

def plain(test, shards=1, **kw):
    d = {"test": test, "shards": shards}
    d.update(kw)
    return d

COMMON_ASSUMPTIONS = [
    "the reference model R (harness/ref) transcribes the JMESPath specification correctly; it is calibrated on the 862 compliance cases, on CPython slicing and by CFG-vs-Pratt language equality, none of which involve the library under test",
    "encoding/json, strconv, unicode/utf8 and reflect of the Go standard library are trusted (used as referee for JSON decoding and number parsing)",
    "exploration only: absence of a violation on the generated cases is not a proof for the cases not generated",
]

PROPS = {}
NOT_APPLICABLE = {}
HOOK_COMMITS = ["570615c"]
NOTES = "All checks: ./check <ID> --tier quick|thorough; exit 0 held / 1 VIOLATION / 2 HARNESS-ERROR (no verdict). Known findings: /verif/KNOWN_FINDINGS.txt. Defects repaired by 'fix:' commits in /repo are listed there as 'fixed:' and their reproductions are replayed from harness/corpus on every run."

LEVEL_NOTE = "Trusted base: the reference model in harness/ref (calibrated at the start of every run on the 862 compliance cases, CPython slicing and CFG-vs-Pratt agreement; a calibration failure is a HARNESS-ERROR, never a violation), the Go standard library (encoding/json, strconv, reflect, utf8), rapid v1.3.0. Exploration: no claim for inputs not generated."

PROPS["C01"] = {
    "quick": [rapid("TestC01", 30000)],
    "thorough": [rapid("TestC01", 150000, shards=16)],
    "rule": "rapid: G-doc document x document-aware core-fragment expression (identifiers incl. quoted/empty/non-ASCII, sub-expressions, indices, literals, raw strings, @, parentheses, pipes, multi-select lists/hashes; three whitespace renderings); oracle: library one-shot Search and Compile+Search vs reference evaluator. Non-trivial: result non-null, or null for a named reason (missing key, out-of-range index, field on non-object, index on non-array, multi-select on null). Distinct by hash of (expression text, document text).",
    "assumptions": COMMON_ASSUMPTIONS,
    "min_nontrivial": 1000,
    "technique": "differential property-based testing against an independent reference evaluator (rapid, document-aware expression generator)",
    "level_text": "Generated-input search: tens of thousands (quick) to millions (thorough) of (expression, document) pairs of the core fragment are evaluated by the library (one-shot and compiled) and by an independent reference evaluator written from the specification; any difference in value or error presence is a violation, shrunk by rapid to a minimal case. Exploration is the right level: the property quantifies over an infinite product of programs and documents.",
    "level_note": LEVEL_NOTE,
}

PROPS["C02"] = {
    "quick": [rapid("TestC02", 30000)],
    "thorough": [rapid("TestC02", 150000, shards=16)],
    "rule": "rapid: G-doc document x document-aware projection-heavy expression ([*], .*, [], [?cond], slices, chained/nested, null-producing and non-null-preserving right-hand sides, functions after projections); oracle: reference evaluator with bag-aware comparison (object-member order free, content exact). Non-trivial: a projection applied its RHS to at least one element (kept or dropped-null), or hit a non-matching LHS, or flattened nested arrays, or a filter rejected an element. Ambiguous cases (order-sensitive use of member lists) are discarded and counted.",
    "assumptions": COMMON_ASSUMPTIONS,
    "min_nontrivial": 1000,
    "technique": "differential property-based testing against a reference evaluator with bag-aware (order-insensitive for object members) comparison",
    "level_text": "Generated-input search over projection-heavy expressions and documents with empty, heterogeneous, null-containing and nested arrays/objects; the library result must equal the reference evaluator's result modulo the unspecified order of object members (multiset equality inside bags, exact elsewhere), including error presence. Exploration: infinite input space.",
    "level_note": LEVEL_NOTE,
}

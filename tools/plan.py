"""Per-property job plans for ./check (what runs in the quick and thorough tiers)."""

def rapid(test, checks, shards=1, **kw):
    d = {"test": test, "checks": checks, "shards": shards}
    d.update(kw)
    return d

def plain(test, shards=1, **kw):
    d = {"test": test, "shards": shards}
    d.update(kw)
    return d

COMMON_ASSUMPTIONS = [
    "the reference model R (harness/ref) transcribes the JMESPath specification correctly; it is calibrated on the 862 compliance cases, on CPython slicing and by CFG-vs-Pratt language equality, none of which involve the library under test",
    "encoding/json, strconv, unicode/utf8 and reflect of the Go standard library are trusted (used as referee for JSON decoding and number parsing)",
    "exploration only: absence of a violation on the generated cases is not a proof for the cases not generated",
]

PROPS = {}
NOT_APPLICABLE = {}
# documents selectable by the first byte of a native-fuzz input (must equal fuzzDocs in harness/robust_test.go)
FUZZ_DOCS = ["null",
  '{"a":{"a":[{"a":1,"q":"x"},{"a":[2,3],"q":null},[4,[5]],0],"q":{"a":"r","q":[1,2]}},"q":[[1,{"a":2}],[],"r",null,{"q":{"a":0}}]}',
  "[1,2,3]", '{"a":[{"b":1,"c":"x"},{"b":2,"c":"y"},{"b":"z"}],"b":{"c":[3,1,2]},"c":"str"}', "[[1,2],[3],[],[[4]]]", '"text"', '[{"a":3},{"a":1},{"a":2}]']

def fuzz(target, fuzztime, **kw):
    d = {"fuzz": target, "fuzztime": fuzztime, "test": None}
    d.update(kw)
    return d

HOOK_COMMITS = ["570615c"]
NOTES = "All checks: ./check <ID> --tier quick|thorough; exit 0 held / 1 VIOLATION / 2 HARNESS-ERROR (no verdict). Known findings: /verif/KNOWN_FINDINGS.txt. Defects repaired by 'fix:' commits in /repo are listed there as 'fixed:' and their reproductions are replayed from harness/corpus on every run."

LEVEL_NOTE = "Trusted base: the reference model in harness/ref (calibrated at the start of every run on the 862 compliance cases, CPython slicing and CFG-vs-Pratt agreement; a calibration failure is a HARNESS-ERROR, never a violation), the Go standard library (encoding/json, strconv, reflect, utf8), rapid v1.3.0. Exploration: no claim for inputs not generated."

PROPS["C01"] = {
    "quick": [plain("TestC01NullMultiSelect"), plain("TestDeepDocs", shards=4), rapid("TestC01", 15000, shards=4), plain("TestC01TokenSizes")],
    "thorough": [plain("TestC01NullMultiSelect"), plain("TestDeepDocs", shards=4), rapid("TestC01", 600000, shards=16), plain("TestC01TokenSizes")],
    "rule": "rapid: G-doc document x document-aware core-fragment expression (identifiers incl. quoted/empty/non-ASCII, sub-expressions, indices, literals, raw strings, @, parentheses, pipes, multi-select lists/hashes; three whitespace renderings); oracle: library one-shot Search and Compile+Search vs reference evaluator. Non-trivial: result non-null, or null for a named reason (missing key, out-of-range index, field on non-object, index on non-array, multi-select on null). Distinct by hash of (expression text, document text). Deep documents (TestDeepDocs): 32 expressions whose result is or contains part of the document x documents nested 0..72 and around 96..2049 deep x 3 container mixes, against the reference model. Exhaustive small forms (TestC01NullMultiSelect): 11 ways to a null or non-null current node x 11 multi-selects (literal, raw-string and field members) x 15 continuations x 3 contexts x 3 documents.",
    "assumptions": COMMON_ASSUMPTIONS,
    "min_nontrivial": 1000,
    "technique": "differential property-based testing against an independent reference evaluator (rapid, document-aware expression generator)",
    "level_text": "Generated-input search: tens of thousands (quick) to millions (thorough) of (expression, document) pairs of the core fragment are evaluated by the library (one-shot and compiled) and by an independent reference evaluator written from the specification; any difference in value or error presence is a violation, shrunk by rapid to a minimal case. Exploration is the right level: the property quantifies over an infinite product of programs and documents.",
    "level_note": LEVEL_NOTE,
}

PROPS["C02"] = {
    "quick": [rapid("TestC02", 60000), plain("TestC02Shapes", shards=4), plain("TestSizeSweep", shards=4), plain("TestProducerConsumerGrid", shards=4), plain("TestNestedCompositions"), plain("TestEqualityUniverse", shards=2)],
    "thorough": [rapid("TestC02", 600000, shards=16), plain("TestC02Shapes", shards=4), plain("TestSizeSweep", shards=4), plain("TestProducerConsumerGrid", shards=4), plain("TestNestedCompositions"), plain("TestEqualityUniverse", shards=2)],
    "rule": "(a) shape grid: 16 left-hand sides x 18 projection operator chains ([*], .*, [], [?..], slices, two-level combinations) x 18 right-hand sides (null-preserving and not: .k, [0], .type(@), .to_string(@), .not_null(@,1), .[@], .{v:@}, nested projections) x 7 terminators (pipe, paren+index, ||) on 11 documents with empty, heterogeneous, null-containing and nested containers; (b) rapid: G-doc document x document-aware projection-heavy expression ([*], .*, [], [?cond], slices, chained/nested, null-producing and non-null-preserving right-hand sides, functions after projections); oracle: reference evaluator with bag-aware comparison (object-member order free, content exact). Non-trivial: a projection applied its RHS to at least one element (kept or dropped-null), or hit a non-matching LHS, or flattened nested arrays, or a filter rejected an element. Ambiguous cases (order-sensitive use of member lists) are discarded and counted.",
    "assumptions": COMMON_ASSUMPTIONS,
    "min_nontrivial": 1000,
    "technique": "differential property-based testing against a reference evaluator with bag-aware (order-insensitive for object members) comparison",
    "level_text": "Generated-input search over projection-heavy expressions and documents with empty, heterogeneous, null-containing and nested arrays/objects; the library result must equal the reference evaluator's result modulo the unspecified order of object members (multiset equality inside bags, exact elsewhere), including error presence. Exploration: infinite input space.",
    "level_note": LEVEL_NOTE,
}


def prop(pid, quick, thorough, rule, technique, level_text, min_nontrivial=100, assumptions=None, **kw):
    d = {"quick": quick, "thorough": thorough, "rule": rule, "technique": technique, "level_text": level_text,
         "level_note": LEVEL_NOTE, "assumptions": (assumptions or []) + COMMON_ASSUMPTIONS, "min_nontrivial": min_nontrivial}
    d.update(kw)
    PROPS[pid] = d

prop("C03",
     quick=[plain("TestC03Enum", env={"VERIF_ENUM_LEN": 5}, shards=8), rapid("TestC03Random", 30000), plain("TestC04Runs"), plain("TestNestedCompositions")],
     thorough=[plain("TestC03Enum", env={"VERIF_ENUM_LEN": 6}, shards=16), rapid("TestC03Random", 400000, shards=16), plain("TestC04Runs"), plain("TestNestedCompositions")],
     rule="(a) every sentence of the grammar up to the token-length bound (enumerated over a 25-symbol token alphabet, decided by the CFG recogniser) and (b) random CFG sentences up to ~45 tokens: the library's AST (verif hook dump) must equal the reference Pratt parse built from the stated precedence rules; the minimal, fully parenthesised and decorated (redundant parentheses + random whitespace) spellings must all have the same library AST; and all spellings must evaluate like the reference on a document. Non-trivial: the fully parenthesised spelling needs at least one parenthesis pair that the minimal spelling omits (i.e. grouping is decided by precedence/associativity/projection scope). Class histogram = adjacent operator-kind pairs covered.",
     technique="exhaustive small-scope enumeration + random CFG sentences; structural differential vs reference Pratt parser, metamorphic parenthesisation/whitespace relation, semantic cross-check",
     level_text="Equal parse implies equal result on every document, so the 'for all documents' quantifier is discharged structurally through the AST dump hook; the metamorphic layer (minimal vs explicit parentheses) needs no reference parser. Exhaustive up to the length bound (quick 5 tokens, thorough 6), random beyond it.",
     min_nontrivial=500)

prop("C04",
     quick=[plain("TestC04Enum", env={"VERIF_ENUM_LEN": 4}, shards=4), plain("TestC04Variants", env={"VERIF_ENUM_LEN": 4}), plain("TestC04LexBroken"), plain("TestC04NearWhitespace"), rapid("TestC04Random", 60000), rapid("TestC04Literals", 60000), plain("TestC04Runs")],
     thorough=[plain("TestC04Enum", env={"VERIF_ENUM_LEN": 6}, shards=16, timeout="3h"), plain("TestC04Variants", env={"VERIF_ENUM_LEN": 5}, shards=8), plain("TestC04LexBroken"), plain("TestC04NearWhitespace"), rapid("TestC04Random", 600000, shards=12), rapid("TestC04Literals", 600000, shards=4), plain("TestC04Runs")],
     rule="(a) every token sequence over the 25-symbol token alphabet up to the length bound, rendered with single spaces: Compile must accept it iff the CFG recogniser (ABNF transcribed, no precedence) derives it; (b) 4 lexeme/whitespace variants of every sentence; (c) lexically broken texts in 5 contexts, and JSON literals / quoted identifiers with 0-2 character-level edits (appended junk, deleted/duplicated/inserted characters) decided by the standard library's JSON decoder; (d) random CFG sentences of 6-45 tokens and their 1-2 token-edit mutants (delete/insert/duplicate/swap/replace/drop-separator), membership decided by the recogniser. Accepted sentences are additionally searched on null and on a fixed document and must agree with the reference evaluator (no 'compiled into something broken'). Non-trivial: a sentence, or a near-miss non-sentence (one deletion or replacement away from a sentence, by lookup in the enumerated sentence sets; by construction for mutants). Accepted non-sentences explained by the open findings KF-P6/KF-P7 are counted under excluded_known.",
     technique="language-equality differential: exhaustive token-sequence enumeration and random sentences/mutants vs a CFG recogniser transcribed from the ABNF",
     level_text="Both directions (accepts non-sentence, rejects sentence) are violations. Exhaustive to the bound (quick: all 406,900 sequences of <= 4 tokens; thorough: all 254 M sequences of <= 6 tokens), random with separator-focused mutants beyond it.",
     min_nontrivial=1000)

prop("C07",
     quick=[plain("TestC07Exhaustive"), rapid("TestC07Random", 40000), rapid("TestC07Near", 40000), plain("TestC07Depth"), plain("TestNestedCompositions")],
     thorough=[plain("TestC07Exhaustive"), rapid("TestC07Random", 400000, shards=8), rapid("TestC07Near", 400000, shards=8), plain("TestC07Depth"), plain("TestNestedCompositions")],
     rule="exhaustive: 36-value universe (incl. objects of equal size with different key sets, null members, reordered arrays, number vs numeric string) (every type, emptiness, nesting) squared x 8 binary operators x 3 carriers (literals, document fields, filter condition), unary not, short-circuit with an erroring right operand, filters over the universe; random: nestings of || && ! and the six comparators (depth <= 6, also inside filters) on G-doc documents; and comparisons between a generated value and a structurally close value (renamed key, null vs missing member, reordered/extended array, number off by one, number vs string) in 5 carriers. Oracle: reference definitions of truthiness, operand-value-returning ||/&&, deep equality, numbers-only ordering. Non-trivial: every exhaustive cell (distinct by carrier, operator, operands); random cases with >= 2 evaluated operators.",
     technique="exhaustive truth tables over a value universe + random operator nestings, differential vs reference evaluator",
     level_text="The operand universe is enumerated completely for every operator and carrier; nestings are explored randomly.",
     min_nontrivial=5000)

prop("C08",
     quick=[plain("TestC08Golden", shards=4), plain("TestC08NonArray"), plain("TestC08Padded"), rapid("TestC08Random", 40000), rapid("TestC08Pairs", 40000), plain("TestNestedCompositions")],
     thorough=[plain("TestC08Golden", shards=8), plain("TestC08NonArray"), plain("TestC08Padded"), rapid("TestC08Random", 200000, shards=12), rapid("TestC08Pairs", 400000, shards=4), plain("TestNestedCompositions")],
     rule="every (length, start, stop, step) of the committed CPython golden file (lengths 0..8 x {absent} U [-len-2, len+2] cubed = 34,776 triples incl. step 0, and the 15^3 grid of boundary values up to +/-(2^63-1) and -2^63 for lengths 0..4) on six carriers (root array, field, after a projection, with a right-hand side, []float64 and []string typed slices); all non-array values x parameter grid incl. step 0; random lengths <= 200 with random 64-bit parameters against the reference slice model; expressions with two or three slices evaluated side by side, nested or piped (10 forms) against the reference evaluator. Expected element lists come from real Python (golden) / big-integer re-implementation of PySlice_AdjustIndices. Non-trivial: all (distinct by carrier, length, parameters); classes: non-empty, empty, step-0 error, non-array.",
     technique="differential vs CPython slicing (golden file generated by the real Python) and a big-integer reference model; exhaustive window + boundary grid + random",
     level_text="The window and the boundary grid are enumerated completely; larger lengths/parameters randomly.",
     min_nontrivial=10000)

prop("C09",
     quick=[plain("TestSharedSubvalues"), plain("TestC09Universe"), rapid("TestC09ToNumber", 40000), rapid("TestC09Random", 40000), rapid("TestC09Large", 12000, shards=2), plain("TestSizeSweep", shards=4), plain("TestC09StringSizes"), plain("TestNestedCompositions"), plain("TestEqualityUniverse", shards=2)],
     thorough=[plain("TestSharedSubvalues"), plain("TestC09Universe"), rapid("TestC09ToNumber", 800000, shards=4), rapid("TestC09Random", 400000, shards=8), rapid("TestC09Large", 160000, shards=8), plain("TestSizeSweep", shards=4), plain("TestC09StringSizes"), plain("TestNestedCompositions"), plain("TestEqualityUniverse", shards=2)],
     rule="(a) each of the 26 functions on every well-typed tuple over a typed universe (numbers incl. -0/1e15, strings incl. multi-byte/astral/number-like/non-finite spellings, number/string/object/mixed arrays with duplicates and ties, objects with colliding keys, 11 expression references); (b) to_number on strings over number-ish characters: finite-or-null, exact for JSON numbers, null for clearly non-numeric; (c) random calls and expressions with calls on G-doc documents and on large arrays (<= 120 objects with many key ties, multi-byte strings); (d) 34 array-function expressions (sort_by/max_by/min_by with number, string, negated and computed keys, sort, max, min, sum, avg, reverse, join, map, nested sorts) on arrays of 0..300 elements with 1..6 distinct keys (heavy ties). Oracle: reference function library (stable insertion sort, first extremal element, code-point string handling, later-wins merge, to_string as 'any JSON text decoding to the argument'), bag-aware for keys/values. Non-trivial: the reference evaluation succeeded and at least one function call was evaluated; per-function success counts are in classes (universe-success.<name>; zero for any function is a harness error). Shared sub-values (TestSharedSubvalues): 35 expressions over values that hold one object or array several times (to_string([@, @]), merge({x: a}, {y: a}), ...) x 3 documents x 3 contexts.",
     technique="differential vs an independent reference function library: exhaustive typed universe per function + random nested calls",
     level_text="Exact equality with the specification's value, hence ordering, permutation and stability of sort_by, first-extremal of max_by/min_by etc. are checked in both directions at once.",
     min_nontrivial=3000)

prop("C10",
     quick=[plain("TestC10Matrix", env={"VERIF_C10_ARITY": 3}, shards=4), plain("TestC10ByExprKeys"), plain("TestC10LargeKeys"), rapid("TestC10Random", 40000), plain("TestSizeSweep", shards=4), plain("TestNestedCompositions")],
     thorough=[plain("TestC10Matrix", env={"VERIF_C10_ARITY": 4}, shards=16), plain("TestC10ByExprKeys"), plain("TestC10LargeKeys"), rapid("TestC10Random", 200000, shards=16), plain("TestSizeSweep", shards=4), plain("TestNestedCompositions")],
     rule="exhaustive matrix: (26 built-ins + 5 unknown names) x arity 0..3 (thorough 0..4) x 13 argument classes per position (null, boolean, number, string, empty/number/string/mixed/nested/object arrays, empty/non-empty object, expression reference), arguments as literals or document fields; by-expression functions x arrays of length 0..3 x 10 key kinds per element incl. an erroring key; arrays of 22/41/61 elements with exactly one invalid or erroring key at every position x 4 key orderings; random ill-typed calls nested in expressions. Oracle: signature table from the specification: ill-typed / wrong arity / unknown => error and nil value, never a panic; well-typed => no error (converse). Non-trivial: the reference evaluation raised a call error or an invalid by-expression key.",
     technique="exhaustive function x arity x argument-class matrix against a reference signature table (error-presence oracle in both directions), plus random nestings",
     level_text="The full matrix is enumerated; error presence must match the specification in both directions.",
     min_nontrivial=10000)

prop("C11",
     quick=[plain("TestC09StringSizes"), plain("TestC11Exhaustive"), plain("TestC11LargeKeys"), plain("TestC11Typed"), plain("TestC11Positions"), plain("TestNestedCompositions"), plain("TestC11Triples", shards=4), rapid("TestC11Random", 40000), plain("TestSizeSweep", shards=4)],
     thorough=[plain("TestC09StringSizes"), plain("TestC11Exhaustive", env={"VERIF_C11_PAIRS": 1}, shards=8), plain("TestC11LargeKeys"), plain("TestC11Typed"), plain("TestC11Positions"), plain("TestNestedCompositions"), plain("TestC11Triples", shards=4), rapid("TestC11Random", 400000, shards=16), plain("TestSizeSweep", shards=4)],
     rule="10 erroring seeds (invalid type, arity, unknown function, zero step, inconsistent/bad key, variadic type, expref as value, nested) x 40 strict context constructors (every operator side, projection kind incl. left operands and right-hand sides, filter condition, function argument positions, expression-reference bodies, multi-select members, pipes) exhaustively (thorough: all ordered pairs), every binary operator with an operand of each of the 36 universe values on the other side of the seed (4 carriers; the reference model decides whether the seed must be evaluated), by-expression functions on arrays of 22/41/61 elements with one erroring key at every position (errors raised inside sort comparators), 11 non-strict controls (short-circuit, empty/non-matching projections, multi-select on null), and random stacks of depth 1..6 incl. document-dependent seeds. Oracle: metamorphic (Search(E) errors => Search(C[E]) errors and returns nil) for stacks that guarantee evaluation, and differential vs the reference evaluator for all. Non-trivial: a strict stack whose seed errors. String sizes (TestC09StringSizes under C11): failing calls whose offending argument is a string of every byte length 0..72 and around 128..65536.",
     technique="metamorphic error-preservation under strict evaluation contexts + differential vs reference evaluator; exhaustive singles/pairs, random stacks",
     level_text="All single contexts (thorough: pairs) are enumerated; deeper nestings randomly.",
     min_nontrivial=300)


prop("C05",
     quick=[plain("TestDepthSweep", mem_gb=6), plain("TestC09StringSizes", mem_gb=6), rapid("TestC05", 50000, shards=4, mem_gb=6), plain("TestC05Scaling", shards=4, mem_gb=6), plain("TestC05NonFinite", mem_gb=6), plain("TestC05Operands", mem_gb=6)],
     thorough=[plain("TestDepthSweep", mem_gb=6), plain("TestC09StringSizes", mem_gb=6), rapid("TestC05", 400000, shards=16, mem_gb=6), plain("TestC05Scaling", shards=4, mem_gb=6), plain("TestC05NonFinite", mem_gb=6), plain("TestC05Operands", mem_gb=6),
               fuzz("FuzzC05", "120s", mem_gb=16, wall_timeout=900),
               fuzz("FuzzC05", "120s", env={"VERIF_FUZZ_EMPTY_CORPUS": 1}, mem_gb=16, wall_timeout=900)],
     rule="rapid: expressions as byte strings (random bytes incl. invalid UTF-8 and NUL; token soup with hostile lexemes such as U+0080 after an identifier, extreme integers, unterminated delimiters; grammar sentences and their mutants; truncations/splices; deep nestings of every bracket/prefix kind up to 64 KiB; documents nested up to 3000 levels matched by equally deep expressions; extreme integers in every index/slice slot; all-function document-aware expressions with 30% ill-typed choices; large flat documents) x G-doc documents. Oracle inside the target: recover() around Compile, MustCompile, Search (both forms) and SyntaxError rendering; 20 s watchdog per case; allocation envelope 2048 x (|expr|+|doc|+|result|) + 32 x |expr| x (|doc|+|result|) + 16 MiB for inputs > 4 KiB; and the semantic oracle: lexable texts must be accepted iff grammatical (reference Pratt parser = CFG) and grammatical ones must evaluate like the reference model. Plus a dose-response check: 60 input families at size k and 8k, thread CPU time may grow at most 24x (judged only above 1 s of CPU). Thorough adds native coverage-guided fuzzing (go test -fuzz) of the same target, once seeded with the repository's fuzz corpus + hostile constants and once with an empty corpus. Non-trivial: the input lexes completely or belongs to a hostile class; classes: lex-error, parse-error, evaluated-ok, evaluated-error, deep-nesting, extreme-integer, large-doc, out-of-domain (invalid UTF-8 / integers beyond int64). Depth sweep (TestDepthSweep): 18 nesting constructs x every depth 1..72 and around 96..10000, complete, cut off after the last opener, unclosed and over-closed. String sizes (TestC09StringSizes under C05): succeeding and failing calls on strings of every byte length 0..72 and around 128..65536 with a multi-byte character at the start, middle, end or next-to-last position, as document value and written in the expression.",
     technique="property-based robustness testing with a semantic oracle inside the target (rapid) + native coverage-guided fuzzing in the thorough tier",
     level_text="Crash/termination/resource oracle over generated and mutated byte strings, with the differential oracle inside the target so that it is not crash-only. Termination is checked as 'returns within a 20 s watchdog on everything generated'; liveness cannot be established by testing.",
     min_nontrivial=5000,
     assumptions=["native fuzzing cannot be pinned to VERIF_SEED; its reproducible unit is the saved input (replay file)", "the watchdog (20 s, >= 10^4 x the normal cost), the allocation envelope and the CPU-time growth rule (24x for 8x size, above 1 s of thread CPU) are generous bounds, not tight ones"])

prop("C06",
     quick=[plain("TestDeepDocs", shards=4), plain("TestSharedSubvalues"), rapid("TestC06", 15000, shards=4), plain("TestSizeSweep", shards=4), plain("TestProducerConsumerGrid", shards=4), plain("TestNestedCompositions"),
            rapid("TestC06", 3000, shards=2, race=True, gomaxprocs=4), plain("TestNestedCompositions", race=True, gomaxprocs=4)],
     thorough=[plain("TestDeepDocs", shards=4), plain("TestSharedSubvalues"), rapid("TestC06", 400000, shards=16), rapid("TestC12", 6000, shards=4, race=True, env={"VERIF_C12_MODE": "reader"}), plain("TestSizeSweep", shards=4), plain("TestProducerConsumerGrid", shards=4), plain("TestNestedCompositions"),
               rapid("TestC06", 40000, shards=4, race=True, gomaxprocs=4), plain("TestProducerConsumerGrid", shards=4, race=True, gomaxprocs=4), plain("TestNestedCompositions", race=True, gomaxprocs=4)],
     rule="rapid: (a) 35 templates applying every reordering/combining function (sort_by, sort, reverse, merge, to_array, map, max_by, flatten, slices, pipes) to documents whose arrays are visibly unsorted, optionally wrapped in a strict context, with a poisoned last key so that by-expression functions fail after partial work; (b) document-aware all-function expressions on those documents; (c) on G-doc documents. The document is rebuilt so that every array has hidden spare capacity filled with sentinels. Oracle: deep snapshot before == after (array order included) and sentinel tails intact, after the one-shot Search and after Compile+Search, on success and on error paths; thorough additionally runs searches under the race detector while another goroutine deep-reads the same document. Non-trivial: the reference evaluation shows that a function call or projection was evaluated (classes list call.<function>, path.success / path.error). Deep documents (TestDeepDocs: results aliasing documents nested up to 2049 deep) and values holding one object several times (TestSharedSubvalues), both under the no-mutation predicate.",
     technique="invariant over generated (expression, document) pairs: deep snapshot equality + spare-capacity sentinels; race detector with a concurrent reader (thorough)",
     level_text="A write that restores the old value is invisible to a snapshot; the thorough tier's concurrent reader under -race covers it.",
     min_nontrivial=3000)

prop("C12",
     quick=[plain("TestC12NonFiniteDocs", race=True, gomaxprocs=4), rapid("TestC12", 1000, shards=4, race=True, gomaxprocs=4), plain("TestC12Representation", shards=4, race=True, gomaxprocs=4), plain("TestNestedCompositions", race=True, gomaxprocs=4)],
     thorough=[plain("TestC12NonFiniteDocs", race=True, gomaxprocs=4), rapid("TestC12", 12000, shards=8, race=True, gomaxprocs=4), rapid("TestC12", 6000, shards=4, race=True, gomaxprocs=2), rapid("TestC12", 6000, shards=4, race=True, gomaxprocs=16), plain("TestC12Representation", shards=4, race=True, gomaxprocs=4), plain("TestNestedCompositions", race=True, gomaxprocs=4)],
     rule="rapid cases (expression, document) from three sources (expressions whose literals are shared by the compiled AST and flow into sort_by/reverse/merge; the C06 templates on unsorted documents; document-aware all-function expressions) plus expressions over a Go struct document (reflection paths; mode 'struct': results compared with the sequential call) x 5 modes (one compiled expression + one shared document; + private documents that differ per goroutine (arrays doubled / truncated; expected result per variant from the reference model); one-shot Search from all goroutines; mixed with concurrent Compile of other expressions; with a concurrent deep reader of the document): 8 goroutines x 20 iterations released by a barrier, binary built with -race (GORACE=halt_on_error: a report fails the run and is attributed to the running case through a breadcrumb file). Oracle: no race report; every goroutine's result equals the sequential result (bag-aware) which equals the reference model; the shared document is unchanged. Non-trivial: at least two goroutines overlapped and the expression reaches a function or projection. Non-finite documents (TestC12NonFiniteDocs): a Go-built document holding NaN and infinities shared by 8 callers (compiled and one-shot) and a concurrent reader; only 'no race report, document bit-identical afterwards' is asserted.",
     technique="concurrent execution of generated cases under the Go race detector + per-goroutine result = sequential result = reference model",
     level_text="The race detector is happens-before based, so coverage is driven by which code paths run concurrently (controlled by the generator) rather than by timing luck; an atomicity violation without a data race is found only if it changes a result in an explored run. The harness does not own the scheduler: reduced strength, see DESIGN.md section 10.",
     min_nontrivial=200,
     assumptions=["schedules are not enumerated: the Go scheduler is not controlled by the harness", "a schedule-dependent failure is replayed by re-running the case 200 times under -race"])

prop("C13",
     quick=[rapid("TestC13", 1500, shards=4), rapid("TestC13Structs", 12000, shards=2), plain("TestProducerConsumerGrid", shards=4), plain("TestNestedCompositions"), plain("TestC13Representation"), plain("TestC13Endurance"), plain("TestC10Matrix", env={"VERIF_C10_ARITY": 2}, shards=2)],
     thorough=[rapid("TestC13", 40000, shards=14, timeout="2h"), rapid("TestC13Structs", 200000, shards=2), plain("TestProducerConsumerGrid", shards=4), plain("TestNestedCompositions"), plain("TestC13Representation"), plain("TestC13Endurance"), plain("TestC10Matrix", env={"VERIF_C10_ARITY": 2}, shards=2)],
     rule="rapid state machine (t.Repeat): state = pool of <= 6 compiled expressions (literal-sharing expressions, reorder templates, document-aware all-function expressions), pool of <= 6 documents (live objects), one long-lived Parser; actions compile / add document / search(i,j) / repeat / one-shot / parse valid / parse invalid (unclosed raw strings after an escaped quote, bad escapes, every parser error site, random bytes) / parse long-then-short; invariant after every step: every pool document deep-equals its original. Model: each search equals a freshly compiled expression on a deep copy of the original document, the one-shot Search, and the reference model (bag-aware); each reused-parser Parse equals NewParser().Parse (AST dump, error text, SyntaxError fields). Additionally (TestC13Structs): one compiled navigational expression searched twice round over 2-4 documents of different run-time generated struct types must agree with the one-shot Search every time. Non-trivial: a history with >= 2 searches on one compiled expression where an earlier one failed or used another document, or a valid parse after an invalid one on the reused Parser. Distinct by hash of the action trace.",
     technique="stateful model-based testing (rapid state machine) against the model 'fresh Compile / fresh Parser per call' and the reference evaluator",
     level_text="Histories are explored randomly and shrink as one value; the replay file is the action trace.",
     min_nontrivial=300)

prop("C14",
     quick=[rapid("TestC14Quoted", 40000), rapid("TestC14Raw", 40000), rapid("TestC14Literal", 40000), rapid("TestC14Whitespace", 40000), rapid("TestC14Mixed", 30000), plain("TestC14Identifiers")],
     thorough=[rapid("TestC14Quoted", 400000, shards=5), rapid("TestC14Raw", 400000, shards=5), rapid("TestC14Literal", 400000, shards=4), rapid("TestC14Whitespace", 400000, shards=2), rapid("TestC14Mixed", 300000, shards=4), plain("TestC14Identifiers")],
     rule="round trips over Unicode strings biased to hard characters (quotes, backslash, backtick, slash, control characters, U+0080, U+2028, U+FFFD, BOM, combining marks, astral planes) and JSON values containing them: quoted identifier written with a randomised JSON escaper (literal / short escape / \\uXXXX upper+lower / surrogate pairs) selects exactly key s (also after a dot and as multi-select hash key); raw string with ' written as \\' denotes exactly s (raw domain only), also inside a larger expression; backtick literal with randomised escaping/whitespace denotes exactly v (standard library as referee of the spelling); exhaustive: all 1- and 2-character ASCII strings and all 3-character strings over a 19-character alphabet are unquoted identifiers iff they match [A-Za-z_][A-Za-z0-9_]*. Whitespace: the same token list (sentences and mutants) rendered with single spaces and with random space/tab/LF/CR/CRLF runs (or glued where the tokens stay separate) must compile alike and to the same AST. Non-trivial: the string needs an escape or contains a non-ASCII rune; every literal; every identifier candidate.",
     technique="round-trip properties with randomised escapers (rapid) + exhaustive short identifiers",
     level_text="Round trips need no reference implementation; the standard library's JSON decoder referees the spellings the harness writes.",
     min_nontrivial=10000)

prop("C15",
     quick=[rapid("TestC15Pipe", 40000), rapid("TestC15Subst", 40000), plain("TestC15Shapes", shards=6), plain("TestC15Structs"), plain("TestC15Sizes"), plain("TestProducerConsumerGrid", shards=4), plain("TestNestedCompositions")],
     thorough=[rapid("TestC15Pipe", 400000, shards=8), rapid("TestC15Subst", 400000, shards=8), plain("TestC15Shapes", shards=6), plain("TestC15Structs"), plain("TestC15Sizes"), plain("TestProducerConsumerGrid", shards=4), plain("TestNestedCompositions")],
     rule="rapid: (a) pairs (A, B), B generated against the value of A: Search('(A) | (B)', d) vs Search(B, Search(A, d)): equal values, error exactly when a step errors; (b) sub-expression S in one of 26 root-evaluated contexts C (pipe left, ||/&& operands, multi-select members, function arguments, comparator operands, projection left-hand sides, ...): Search(C[S], d) vs Search(C[literal(Search(S, d))], d). (c) shape grid: every projection-shape expression A (16 left-hand sides x 18 projection operator chains x 18 right-hand sides) piped into 20 short right-hand sides B ([0], [-1], length(@), [?@], type(@), ...) on 11 documents with null-producing elements. (d) the pipe law on a Go struct document (typed slices, pointers) with type-sensitive right-hand sides (sort, max, join, sum, ==). The library is compared with itself; the reference model only supplies the ambiguity verdict and the bag structure for order-insensitive comparison. Non-trivial: A non-identity with non-null result and B not a literal; S not already a literal.",
     technique="algebraic laws checked on the library itself (metamorphic): pipe splitting and literal substitution",
     level_text="Metamorphic relations over generated expressions and documents; no expected answers needed.",
     min_nontrivial=3000)

prop("C16",
     quick=[plain("TestDeepDocs", shards=4), plain("TestSharedSubvalues"), rapid("TestC16", 20000, shards=4), plain("TestSizeSweep", shards=4), plain("TestProducerConsumerGrid", shards=4), plain("TestNestedCompositions"), plain("TestC10ByExprKeys")],
     thorough=[plain("TestDeepDocs", shards=4), plain("TestSharedSubvalues"), rapid("TestC16", 600000, shards=16), plain("TestSizeSweep", shards=4), plain("TestProducerConsumerGrid", shards=4), plain("TestNestedCompositions"), plain("TestC10ByExprKeys")],
     rule="rapid: G-doc documents (numbers |x| <= 1e15) x (a) every function with closure-threatening arguments (empty arrays/objects/strings, 'inf', 'nan', 'Infinity', '1e999', '0x1p4', empty projections/slices) in 5 contexts, (b) document-aware all-function expressions. Precondition: the expression is a sentence of the strict grammar (expression references only as function arguments). Oracle (validity predicate): on success the result consists only of nil, bool, finite float64, string, non-nil []interface{} and non-nil map[string]interface{}, json.Marshal succeeds and json.Unmarshal of the text deep-equals the result. Non-trivial: Search succeeded with a non-null result; classes: result type, top-level node, top-level function. Deep documents (TestDeepDocs) and shared sub-values (TestSharedSubvalues) under the JSON-data predicate.",
     technique="validity predicate (type walk + JSON marshal/unmarshal round trip) over generated expressions",
     level_text="Closure is a predicate on every reachable result; no reference needed.",
     min_nontrivial=5000)

prop("C17",
     quick=[plain("TestDepthSweep"), plain("TestC17Sites"), rapid("TestC17Random", 120000)],
     thorough=[plain("TestDepthSweep"), plain("TestC17Sites"), rapid("TestC17Random", 800000, shards=16), fuzz("FuzzC17", "120s", fuzz_kind="contract", mem_gb=16, wall_timeout=900)],
     rule="~130 texts aimed at each lexer/parser failure site in 6 contexts; random bytes (incl. invalid UTF-8, NUL), token soup, hard Unicode strings, sentences, mutants, truncations at every byte offset, spliced runes/bytes. Contract predicate: exactly one of (expression, error); for a SyntaxError: Expression == input, 0 <= Offset <= len(input), HighlightLocation() == input + newline + Offset spaces + '^' without panicking, Error() non-empty; MustCompile panics iff Compile failed with a string containing strconv.Quote(input), else its expression behaves like Compile's on two documents and matches the reference model. Non-trivial: Compile failed; classes: site:<message template>, offset:0/interior/len, syntaxerror/other-error. Depth sweep (TestDepthSweep): 18 nesting constructs x every depth 1..72 and around 96..10000, complete, cut off after the last opener, unclosed and over-closed, under the contract predicate.",
     technique="contract predicate over generated byte strings (rapid) + native fuzzing with the same predicate (thorough)",
     level_text="Every failure path is reached through generated inputs; the evidence lists the distinct message templates reached so that a missing site is visible.",
     min_nontrivial=5000)

prop("C18",
     quick=[rapid("TestC18Equiv", 40000), rapid("TestC18Lowercase", 20000), rapid("TestC18NoPanic", 40000), plain("TestC18HandWritten"), plain("TestC18Slices"), plain("TestC18Rich", shards=4)],
     thorough=[rapid("TestC18Equiv", 400000, shards=8), rapid("TestC18Lowercase", 200000, shards=2), rapid("TestC18NoPanic", 400000, shards=6), plain("TestC18HandWritten"), plain("TestC18Slices"), plain("TestC18Rich", shards=4)],
     rule="rapid: struct types built at run time (reflect.StructOf / SliceOf / PointerTo): nested structs by value and by pointer (nil and non-nil), non-nil slices of structs / pointers (with nil elements) / strings / float64 / slices, scalar leaves string, float64, bool, int; root by value or by pointer; values filled by rapid; generic twin = JSON round trip of the Go value. (a) navigational fragment (exact field names, index, slice, flatten, list and filter projections with !/||/&& conditions, multi-select, pipe, length() of slices and strings): JSON-normalised struct result == generic result, error presence equal; (b) lower-case first letter: same result as the exported spelling on the struct form; (c) all-function document-aware expressions: no panic; (d) hand-written types (unexported, embedded, caseless-script fields, nil roots/elements) x ~100 expressions x 4 contexts: no panic, nil pointers behave as null; (e) 6 typed-slice fields x 14^3 slice parameter triples (window and 64-bit boundary values) and indices: struct form == generic form; (f) navigational shape grid (16 left-hand sides x 23 navigation/projection chains x 22 right-hand sides x 8 terminators) on a rich hand-written document with nil pointers inside typed slices reached through projections, nested typed slices and pointer chains. Non-trivial: the type contains a pointer or typed slice and the generic result is non-null or the document contains a null.",
     technique="differential struct form vs generic JSON form over run-time generated struct types (rapid + reflect.StructOf), recover() for the no-panic half",
     level_text="Types and values are generated; comparators, object wildcards, functions other than length, nil slices and pointer-to-pointer fields are outside the property's domain and are not asserted.",
     min_nontrivial=3000)

prop("C19",
     quick=[rapid("TestC19", 800, shards=8, needs_jpgo=True)],
     thorough=[rapid("TestC19", 16000, shards=16, needs_jpgo=True)],
     rule="rapid: (expression, input text, channel) triples run through the freshly built cmd/jpgo binary: expressions valid (document-aware all-function), invalid (mutants, random bytes), failing at evaluation, with unserialisable results (sum overflowing to +Inf), flag-like ('-1', '--', '-ast'); inputs valid JSON (compact, indented, padded), invalid (truncated at a random byte, trailing garbage, empty, bare words, invalid UTF-8, two values); channels stdin and -input file; with or without '--'. Oracle: the library in-process on json.Unmarshal(input): success => exit 0 and stdout decodes to exactly the library's value (bag-aware); otherwise exit != 0 and empty stdout. Non-trivial: a failure case, or a success with non-null output; classes per reason and channel.",
     technique="differential CLI-vs-library testing over generated (expression, input, channel) triples",
     level_text="Each case starts the real binary; expressions containing NUL cannot be passed as an argument and are discarded.",
     min_nontrivial=500)

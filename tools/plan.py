"""Per-property job plans for ./check (what runs in the quick and thorough tiers)."""

def rapid(test, checks, shards=1, **kw):
    d = {"test": test, "checks": checks, "shards": shards}
    d.update(kw)
    return d

def plain(test, shards=1, **kw):
    d = {"test": test, "shards": shards}
    d.update(kw)
    return d

COMMON_ASSUMPTIONS = [
    "the reference model R (harness/ref) transcribes the JMESPath specification correctly; it is calibrated on the 862 compliance cases, on CPython slicing and by CFG-vs-Pratt language equality, none of which involve the library under test",
    "encoding/json, strconv, unicode/utf8 and reflect of the Go standard library are trusted (used as referee for JSON decoding and number parsing)",
    "exploration only: absence of a violation on the generated cases is not a proof for the cases not generated",
]

PROPS = {}
NOT_APPLICABLE = {}
HOOK_COMMITS = ["570615c"]
NOTES = "All checks: ./check <ID> --tier quick|thorough; exit 0 held / 1 VIOLATION / 2 HARNESS-ERROR (no verdict). Known findings: /verif/KNOWN_FINDINGS.txt. Defects repaired by 'fix:' commits in /repo are listed there as 'fixed:' and their reproductions are replayed from harness/corpus on every run."

LEVEL_NOTE = "Trusted base: the reference model in harness/ref (calibrated at the start of every run on the 862 compliance cases, CPython slicing and CFG-vs-Pratt agreement; a calibration failure is a HARNESS-ERROR, never a violation), the Go standard library (encoding/json, strconv, reflect, utf8), rapid v1.3.0. Exploration: no claim for inputs not generated."

PROPS["C01"] = {
    "quick": [rapid("TestC01", 30000)],
    "thorough": [rapid("TestC01", 150000, shards=16)],
    "rule": "rapid: G-doc document x document-aware core-fragment expression (identifiers incl. quoted/empty/non-ASCII, sub-expressions, indices, literals, raw strings, @, parentheses, pipes, multi-select lists/hashes; three whitespace renderings); oracle: library one-shot Search and Compile+Search vs reference evaluator. Non-trivial: result non-null, or null for a named reason (missing key, out-of-range index, field on non-object, index on non-array, multi-select on null). Distinct by hash of (expression text, document text).",
    "assumptions": COMMON_ASSUMPTIONS,
    "min_nontrivial": 1000,
    "technique": "differential property-based testing against an independent reference evaluator (rapid, document-aware expression generator)",
    "level_text": "Generated-input search: tens of thousands (quick) to millions (thorough) of (expression, document) pairs of the core fragment are evaluated by the library (one-shot and compiled) and by an independent reference evaluator written from the specification; any difference in value or error presence is a violation, shrunk by rapid to a minimal case. Exploration is the right level: the property quantifies over an infinite product of programs and documents.",
    "level_note": LEVEL_NOTE,
}

PROPS["C02"] = {
    "quick": [rapid("TestC02", 30000)],
    "thorough": [rapid("TestC02", 150000, shards=16)],
    "rule": "rapid: G-doc document x document-aware projection-heavy expression ([*], .*, [], [?cond], slices, chained/nested, null-producing and non-null-preserving right-hand sides, functions after projections); oracle: reference evaluator with bag-aware comparison (object-member order free, content exact). Non-trivial: a projection applied its RHS to at least one element (kept or dropped-null), or hit a non-matching LHS, or flattened nested arrays, or a filter rejected an element. Ambiguous cases (order-sensitive use of member lists) are discarded and counted.",
    "assumptions": COMMON_ASSUMPTIONS,
    "min_nontrivial": 1000,
    "technique": "differential property-based testing against a reference evaluator with bag-aware (order-insensitive for object members) comparison",
    "level_text": "Generated-input search over projection-heavy expressions and documents with empty, heterogeneous, null-containing and nested arrays/objects; the library result must equal the reference evaluator's result modulo the unspecified order of object members (multiset equality inside bags, exact elsewhere), including error presence. Exploration: infinite input space.",
    "level_note": LEVEL_NOTE,
}


def prop(pid, quick, thorough, rule, technique, level_text, min_nontrivial=100, assumptions=None, **kw):
    d = {"quick": quick, "thorough": thorough, "rule": rule, "technique": technique, "level_text": level_text,
         "level_note": LEVEL_NOTE, "assumptions": (assumptions or []) + COMMON_ASSUMPTIONS, "min_nontrivial": min_nontrivial}
    d.update(kw)
    PROPS[pid] = d

prop("C03",
     quick=[plain("TestC03Enum", env={"VERIF_ENUM_LEN": 5}, shards=8), rapid("TestC03Random", 15000)],
     thorough=[plain("TestC03Enum", env={"VERIF_ENUM_LEN": 6}, shards=16), rapid("TestC03Random", 100000, shards=16)],
     rule="(a) every sentence of the grammar up to the token-length bound (enumerated over a 25-symbol token alphabet, decided by the CFG recogniser) and (b) random CFG sentences up to ~45 tokens: the library's AST (verif hook dump) must equal the reference Pratt parse built from the stated precedence rules; the minimal, fully parenthesised and decorated (redundant parentheses + random whitespace) spellings must all have the same library AST; and all spellings must evaluate like the reference on a document. Non-trivial: the fully parenthesised spelling needs at least one parenthesis pair that the minimal spelling omits (i.e. grouping is decided by precedence/associativity/projection scope). Class histogram = adjacent operator-kind pairs covered.",
     technique="exhaustive small-scope enumeration + random CFG sentences; structural differential vs reference Pratt parser, metamorphic parenthesisation/whitespace relation, semantic cross-check",
     level_text="Equal parse implies equal result on every document, so the 'for all documents' quantifier is discharged structurally through the AST dump hook; the metamorphic layer (minimal vs explicit parentheses) needs no reference parser. Exhaustive up to the length bound (quick 5 tokens, thorough 6), random beyond it.",
     min_nontrivial=500)

prop("C04",
     quick=[plain("TestC04Enum", env={"VERIF_ENUM_LEN": 4}, shards=4), plain("TestC04Variants", env={"VERIF_ENUM_LEN": 4}), plain("TestC04LexBroken"), rapid("TestC04Random", 30000)],
     thorough=[plain("TestC04Enum", env={"VERIF_ENUM_LEN": 6}, shards=16, timeout="3h"), plain("TestC04Variants", env={"VERIF_ENUM_LEN": 5}, shards=8), plain("TestC04LexBroken"), rapid("TestC04Random", 150000, shards=16)],
     rule="(a) every token sequence over the 25-symbol token alphabet up to the length bound, rendered with single spaces: Compile must accept it iff the CFG recogniser (ABNF transcribed, no precedence) derives it; (b) 4 lexeme/whitespace variants of every sentence; (c) lexically broken texts in 5 contexts; (d) random CFG sentences of 6-45 tokens and their 1-2 token-edit mutants (delete/insert/duplicate/swap/replace/drop-separator), membership decided by the recogniser. Accepted sentences are additionally searched on null and on a fixed document and must agree with the reference evaluator (no 'compiled into something broken'). Non-trivial: a sentence, or a near-miss non-sentence (one deletion or replacement away from a sentence, by lookup in the enumerated sentence sets; by construction for mutants). Accepted non-sentences explained by the open findings KF-P6/KF-P7 are counted under excluded_known.",
     technique="language-equality differential: exhaustive token-sequence enumeration and random sentences/mutants vs a CFG recogniser transcribed from the ABNF",
     level_text="Both directions (accepts non-sentence, rejects sentence) are violations. Exhaustive to the bound (quick: all 406,900 sequences of <= 4 tokens; thorough: all 254 M sequences of <= 6 tokens), random with separator-focused mutants beyond it.",
     min_nontrivial=1000)

prop("C07",
     quick=[plain("TestC07Exhaustive"), rapid("TestC07Random", 20000)],
     thorough=[plain("TestC07Exhaustive"), rapid("TestC07Random", 100000, shards=16)],
     rule="exhaustive: 24-value universe (every type, emptiness, nesting) squared x 8 binary operators x 3 carriers (literals, document fields, filter condition), unary not, short-circuit with an erroring right operand, filters over the universe; random: nestings of || && ! and the six comparators (depth <= 6, also inside filters) on G-doc documents. Oracle: reference definitions of truthiness, operand-value-returning ||/&&, deep equality, numbers-only ordering. Non-trivial: every exhaustive cell (distinct by carrier, operator, operands); random cases with >= 2 evaluated operators.",
     technique="exhaustive truth tables over a value universe + random operator nestings, differential vs reference evaluator",
     level_text="The operand universe is enumerated completely for every operator and carrier; nestings are explored randomly.",
     min_nontrivial=5000)

prop("C08",
     quick=[plain("TestC08Golden", shards=4), plain("TestC08NonArray"), rapid("TestC08Random", 20000)],
     thorough=[plain("TestC08Golden", shards=8), plain("TestC08NonArray"), rapid("TestC08Random", 50000, shards=16)],
     rule="every (length, start, stop, step) of the committed CPython golden file (lengths 0..8 x {absent} U [-len-2, len+2] cubed = 34,776 triples incl. step 0, and the 15^3 grid of boundary values up to +/-(2^63-1) and -2^63 for lengths 0..4) on six carriers (root array, field, after a projection, with a right-hand side, []float64 and []string typed slices); all non-array values x parameter grid incl. step 0; random lengths <= 200 with random 64-bit parameters against the reference slice model. Expected element lists come from real Python (golden) / big-integer re-implementation of PySlice_AdjustIndices. Non-trivial: all (distinct by carrier, length, parameters); classes: non-empty, empty, step-0 error, non-array.",
     technique="differential vs CPython slicing (golden file generated by the real Python) and a big-integer reference model; exhaustive window + boundary grid + random",
     level_text="The window and the boundary grid are enumerated completely; larger lengths/parameters randomly.",
     min_nontrivial=10000)

prop("C09",
     quick=[plain("TestC09Universe"), rapid("TestC09ToNumber", 20000), rapid("TestC09Random", 20000)],
     thorough=[plain("TestC09Universe"), rapid("TestC09ToNumber", 200000, shards=4), rapid("TestC09Random", 100000, shards=16)],
     rule="(a) each of the 26 functions on every well-typed tuple over a typed universe (numbers incl. -0/1e15, strings incl. multi-byte/astral/number-like/non-finite spellings, number/string/object/mixed arrays with duplicates and ties, objects with colliding keys, 11 expression references); (b) to_number on strings over number-ish characters: finite-or-null, exact for JSON numbers, null for clearly non-numeric; (c) random calls and expressions with calls on G-doc documents and on large arrays (<= 120 objects with many key ties, multi-byte strings). Oracle: reference function library (stable insertion sort, first extremal element, code-point string handling, later-wins merge, to_string as 'any JSON text decoding to the argument'), bag-aware for keys/values. Non-trivial: the reference evaluation succeeded and at least one function call was evaluated; per-function success counts are in classes (universe-success.<name>; zero for any function is a harness error).",
     technique="differential vs an independent reference function library: exhaustive typed universe per function + random nested calls",
     level_text="Exact equality with the specification's value, hence ordering, permutation and stability of sort_by, first-extremal of max_by/min_by etc. are checked in both directions at once.",
     min_nontrivial=3000)

prop("C10",
     quick=[plain("TestC10Matrix", env={"VERIF_C10_ARITY": 3}, shards=4), plain("TestC10ByExprKeys"), rapid("TestC10Random", 20000)],
     thorough=[plain("TestC10Matrix", env={"VERIF_C10_ARITY": 4}, shards=16), plain("TestC10ByExprKeys"), rapid("TestC10Random", 50000, shards=16)],
     rule="exhaustive matrix: (26 built-ins + 5 unknown names) x arity 0..3 (thorough 0..4) x 13 argument classes per position (null, boolean, number, string, empty/number/string/mixed/nested/object arrays, empty/non-empty object, expression reference), arguments as literals or document fields; by-expression functions x arrays of length 0..3 x 7 key kinds per element incl. an erroring key; random ill-typed calls nested in expressions. Oracle: signature table from the specification: ill-typed / wrong arity / unknown => error and nil value, never a panic; well-typed => no error (converse). Non-trivial: the reference evaluation raised a call error or an invalid by-expression key.",
     technique="exhaustive function x arity x argument-class matrix against a reference signature table (error-presence oracle in both directions), plus random nestings",
     level_text="The full matrix is enumerated; error presence must match the specification in both directions.",
     min_nontrivial=10000)

prop("C11",
     quick=[plain("TestC11Exhaustive"), rapid("TestC11Random", 20000)],
     thorough=[plain("TestC11Exhaustive", env={"VERIF_C11_PAIRS": 1}, shards=8), rapid("TestC11Random", 100000, shards=16)],
     rule="10 erroring seeds (invalid type, arity, unknown function, zero step, inconsistent/bad key, variadic type, expref as value, nested) x 40 strict context constructors (every operator side, projection kind incl. left operands and right-hand sides, filter condition, function argument positions, expression-reference bodies, multi-select members, pipes) exhaustively (thorough: all ordered pairs), 11 non-strict controls (short-circuit, empty/non-matching projections, multi-select on null), and random stacks of depth 1..6 incl. document-dependent seeds. Oracle: metamorphic (Search(E) errors => Search(C[E]) errors and returns nil) for stacks that guarantee evaluation, and differential vs the reference evaluator for all. Non-trivial: a strict stack whose seed errors.",
     technique="metamorphic error-preservation under strict evaluation contexts + differential vs reference evaluator; exhaustive singles/pairs, random stacks",
     level_text="All single contexts (thorough: pairs) are enumerated; deeper nestings randomly.",
     min_nontrivial=300)

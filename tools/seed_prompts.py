# Writes the prompts for one round of seeded-change sub-agents (one per property) and creates their scratch
# worktrees of /repo under /tmp. Usage: python3 tools/seed_prompts.py <round> "<theme>". Each agent gets only its
# property text, its worktree and the list of ideas already used (tools/seed_summaries.py). Remove the worktrees
# afterwards: git -C /repo worktree remove --force /tmp/seed<round>-Cxx; git -C /repo worktree prune.
import json,subprocess,os,sys,importlib
rnd=sys.argv[1]; theme=sys.argv[2]
props={json.loads(l)['id']:json.loads(l) for l in open('/verif/properties.jsonl')}
sys.path.insert(0,'/verif/tools')
import seed_summaries
tried={}
for sid,(what,needs) in seed_summaries.SUMMARIES.items():
    tried.setdefault(sid.split('-')[1],[]).append(what)
os.makedirs('/tmp/seedprompts'+rnd,exist_ok=True)
tmpl=open('/verif/tools/seed_prompt_template.txt').read()
for pid,p in props.items():
    wt='/tmp/seed%s-%s'%(rnd,pid)
    if not os.path.exists(wt):
        subprocess.check_call(['git','-C','/repo','worktree','add','-q','--detach',wt,'HEAD'])
    base=tmpl.replace('@WT@',wt).replace('@TITLE@',p['title']).replace('@STATEMENT@',p['statement']).replace('@QUANT@',p['quantifier']['text'])
    extra="\n\nAdditional constraints for this round:\n- These ideas were already used, do NOT repeat them or close variants: " + "; ".join(tried.get(pid,[])) + ".\n- Theme of this round: " + theme + "\n- The manifestation must need an unusual combination of conditions; ordinary use and the existing tests must not show it.\n- IMPORTANT: never use `git stash` (the stash is shared between worktrees). To test the unchanged code use `git apply -R _seed/patch.diff` and afterwards `git apply _seed/patch.diff`.\n"
    open('/tmp/seedprompts%s/%s.txt'%(rnd,pid),'w').write(base+extra)
print('ok')

#!/usr/bin/env python3
"""Confirms and archives seeded changes produced by independent sub-agents, and runs the checks
against them.

  tools/seeded.py import <src-dir-with-_seed> <seed-id> <property>   verify + copy into /verif/seeded/<seed-id>/
  tools/seeded.py run [<seed-id> ...] [--tier quick] [--props C01,C02]  apply each archived patch to a scratch copy of /repo and run checks

A seeded change is kept only if, in a scratch copy of /repo: the patch applies, the library builds,
the pinned baseline passes, the demonstration fails with the change and passes without it."""
import json, os, shutil, subprocess, sys, tempfile, time, glob

VERIF = os.path.dirname(os.path.dirname(os.path.abspath(__file__)))
ENV = dict(os.environ, GOFLAGS="-mod=mod", GOPROXY="off", GOSUMDB="off", GOTOOLCHAIN="local")


def sh(cmd, **kw):
    return subprocess.run(cmd, stdout=subprocess.PIPE, stderr=subprocess.STDOUT, text=True, **kw)


def scratch(patch=None):
    d = tempfile.mkdtemp(prefix="verif-seedrun-", dir="/tmp")
    shutil.rmtree(d)
    shutil.copytree("/repo", d, ignore=shutil.ignore_patterns(".git", "_seed"))
    sh(["git", "init", "-q"], cwd=d)
    if patch:
        r = sh(["git", "apply", "--whitespace=nowarn", patch], cwd=d)
        if r.returncode != 0:
            r = sh(["patch", "-p1", "-i", patch], cwd=d)
            if r.returncode != 0:
                shutil.rmtree(d, ignore_errors=True)
                raise RuntimeError("patch does not apply: " + r.stdout[-400:])
    return d


def run_demo(d, seed_dir):
    demos = [f for f in os.listdir(seed_dir) if f.endswith("_test.go")]
    outs = []
    rc = 0
    race = False
    notes = ""
    try:
        notes = open(os.path.join(seed_dir, "notes.md")).read()
    except Exception:
        pass
    if "-race" in notes:
        race = True
    for f in demos:
        shutil.copy(os.path.join(seed_dir, f), os.path.join(d, "zz_" + f))
    if demos:
        cmd = ["go", "test", "-vet=off", "-count=1", "-run", "Demo|Seed", "."]
        if race:
            cmd.insert(2, "-race")
        r = sh(cmd, cwd=d, env=ENV, timeout=900)
        rc, outs = r.returncode, [r.stdout[-1500:]]
        for f in demos:
            os.remove(os.path.join(d, "zz_" + f))
    else:
        mains = glob.glob(os.path.join(seed_dir, "**", "main.go"), recursive=True)
        if not mains:
            return None, "no demonstration found"
        # a main program: run it inside the scratch module
        dst = os.path.join(d, "_demo")
        shutil.copytree(os.path.dirname(mains[0]), dst)
        r = sh(["go", "run", "./_demo"], cwd=d, env=ENV, timeout=900)
        rc, outs = r.returncode, [r.stdout[-1500:]]
        shutil.rmtree(dst, ignore_errors=True)
    return rc, "\n".join(outs)


def do_import(src, sid, prop):
    seed_dir = os.path.join(src, "_seed")
    patch = os.path.join(seed_dir, "patch.diff")
    meta = {"seed_id": sid, "property": prop, "source": "independent sub-agent (given only the property text and a scratch worktree)"}
    d0 = scratch()
    d1 = scratch(patch)
    try:
        b = sh(["go", "build", "./..."], cwd=d1, env=ENV)
        meta["builds"] = b.returncode == 0
        bl = sh([os.path.join(VERIF, "tools", "baseline.sh"), d1, "."])
        meta["baseline_passes_with_change"] = bl.returncode == 0
        rc1, out1 = run_demo(d1, seed_dir)
        rc0, out0 = run_demo(d0, seed_dir)
        meta["demo_fails_with_change"] = rc1 not in (0, None)
        meta["demo_passes_without_change"] = rc0 == 0
        meta["demo_output_with_change"] = (out1 or "")[-600:]
        ok = meta["builds"] and meta["baseline_passes_with_change"] and meta["demo_fails_with_change"] and meta["demo_passes_without_change"]
        meta["confirmed"] = ok
        meta["commands"] = ["git apply patch.diff (scratch copy of /repo)", "go build ./...", "tools/baseline.sh <scratch> .",
                            "cp demo_test.go zz_demo_test.go && go test -vet=off -count=1 -run 'Demo|Seed' . (with and without the patch)"]
        try:
            notes = open(os.path.join(seed_dir, "notes.md")).read()
        except Exception:
            notes = ""
        meta["needs_to_manifest"] = ""
        print(json.dumps({k: v for k, v in meta.items() if k != "demo_output_with_change"}, indent=1))
        if not ok:
            print("NOT CONFIRMED; demo outputs:\n--- with change:\n%s\n--- without:\n%s" % (out1, out0))
            return 1
        dst = os.path.join(VERIF, "seeded", sid)
        os.makedirs(dst, exist_ok=True)
        shutil.copy(patch, os.path.join(dst, "patch.diff"))
        for f in os.listdir(seed_dir):
            if f.endswith("_test.go") or f == "notes.md":
                shutil.copy(os.path.join(seed_dir, f), os.path.join(dst, f if f != "demo_test.go" else "demo_test.go.txt"))
        for f in os.listdir(dst):
            if f.endswith("_test.go"):
                os.rename(os.path.join(dst, f), os.path.join(dst, f + ".txt"))
        json.dump(meta, open(os.path.join(dst, "meta.json"), "w"), indent=1)
        return 0
    finally:
        shutil.rmtree(d0, ignore_errors=True)
        shutil.rmtree(d1, ignore_errors=True)


def do_run(ids, tier, props_override):
    base = os.path.join(VERIF, "seeded")
    ids = ids or sorted(os.listdir(base))
    before = set(os.listdir(os.path.join(VERIF, "replays")))
    for sid in ids:
        dst = os.path.join(base, sid)
        meta = json.load(open(os.path.join(dst, "meta.json")))
        props = props_override or meta.get("check_props") or [meta["property"]]
        d = scratch(os.path.join(dst, "patch.diff"))
        try:
            res = {}
            for p in props:
                t0 = time.time()
                c = sh([os.path.join(VERIF, "check"), p, "--tier", tier], cwd=VERIF, env=dict(os.environ, VERIF_REPO=d, VERIF_WORKERS="8"))
                cases = [l.strip() for l in c.stdout.splitlines() if l.strip().startswith("case:")]
                res[p] = {"rc": c.returncode, "wall_s": round(time.time() - t0, 1), "first_case": cases[0][:400] if cases else ""}
                if c.returncode == 2:
                    res[p]["harness_error"] = c.stdout[-600:]
            meta.setdefault("detection", {})[tier] = res
            meta["detected_by"] = sorted(set(meta.get("detected_by", [])) | {p for p, r in res.items() if r["rc"] == 1})
            json.dump(meta, open(os.path.join(dst, "meta.json"), "w"), indent=1)
            print("%-14s %s" % (sid, {p: (r["rc"], r["wall_s"]) for p, r in res.items()}), flush=True)
        finally:
            shutil.rmtree(d, ignore_errors=True)
    for f in set(os.listdir(os.path.join(VERIF, "replays"))) - before:
        os.remove(os.path.join(VERIF, "replays", f))
    # (the driver puts the replay files of runs against a scratch repository here)
    shutil.rmtree(os.path.join(VERIF, ".work", "replays-scratch"), ignore_errors=True)
    shutil.rmtree(os.path.join(VERIF, ".work", "evidence-scratch"), ignore_errors=True)


if __name__ == "__main__":
    if sys.argv[1] == "import":
        sys.exit(do_import(sys.argv[2], sys.argv[3], sys.argv[4]))
    elif sys.argv[1] == "run":
        args = sys.argv[2:]
        tier, props = "quick", None
        ids = []
        i = 0
        while i < len(args):
            if args[i] == "--tier":
                tier = args[i + 1]; i += 2
            elif args[i] == "--props":
                props = args[i + 1].split(","); i += 2
            else:
                ids.append(args[i]); i += 1
        do_run(ids, tier, props)
